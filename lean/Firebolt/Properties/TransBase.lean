import Firebolt.Generated.Trans
import Firebolt.Model.EsSink
/-!
Definitions shared by the `translated_*` theorems of the property files: the decisions the translated fragments
(`Generated/Trans.lean`, rewritten from /repo on every run) are proved to take, stated in the vocabulary of the
hand-written models.  No theorem of a property lives here.
-/
namespace Firebolt.TransBase
open Firebolt Firebolt.MiniGo

/-- what recoverSingleEvent decides for a record at offset `o` of a partition with active window `[f, t)` -/
inductive RDec where
  | ignore | complete | emit (upd : Bool)
deriving DecidableEq, Repr

def rdec (act : Bool) (f t o every : Int) : RDec :=
  if !act then .ignore else if o < f then .ignore else if t - o ≤ 0 then .complete
  else .emit (decide (o % every = 0 ∧ t - o > 0))

/-- the calls every run of recoverSingleEvent starts with: the state lookup under the read lock -/
def rsePre (σ : Env) : List (String × List Int) :=
  [("rc.partitionAssignmentLock.RLock", []), ("defer rc.partitionAssignmentLock.RUnlock", []),
   ("lookup rc.activePartitionMap", [σ "e.TopicPartition.Partition"])]

def rseWait (σ : Env) : String × List Int := ("rc.rateLimiter.Wait", [σ "rc.ctx"])
def rseSend (σ : Env) : String × List Int := ("send rc.sendCh {Payload,Created,Recovery}", [σ "e.Value", σ "time.Now()", 1])

/-- Go's truncated `%` and Lean's `%` agree on "is a multiple of" -/
theorem tmod_zero_iff (a b : Int) : Int.tmod a b = 0 ↔ a % b = 0 := by
  constructor
  · intro h; exact Int.emod_eq_zero_of_dvd (Int.dvd_of_tmod_eq_zero h)
  · intro h; exact Int.tmod_eq_zero_of_dvd (Int.dvd_of_emod_eq_zero h)

/-- the resume offset RefreshAssignments picks for an owned partition with an outstanding request `[rf, rt)` -/
def candFrom (inRec : Bool) (af at' rf rt : Int) : Int := if inRec ∧ at' = rt ∧ af > rf then af else rf

open Firebolt.EsSink in
/-- what Elasticsearch said about one document, as handleErrorResponses reads it -/
def esOutcome (σ : Env) : Option Outcome :=
  if 200 ≤ σ "i.Status" ∧ σ "i.Status" ≤ 299 then some .ok
  else if σ "i.Error" = 0 then none                                   -- non-2xx without an error object: neither answered nor retried
  else if σ "i.Error.Type" = σ "\"mapper_parsing_exception\"" then some .mapping
  else some .retryable

def esErrCalls (σ : Env) : List (String × List Int) :=
  [("firebolt.NewFBError", [σ "\"ES_INDEX_ERROR\"", σ "\"failed to index to elasticsearch\"", σ "firebolt.WithInfo(i.Error)"]),
   ("c.metrics.IndexErrors.WithLabelValues(i.Error.Type).Inc", []),
   ("req.Event.ReturnError", [σ "firebolt.NewFBError#0"])]

end Firebolt.TransBase
