import Firebolt.TransExpected
import Firebolt.Properties.TransBase
import Firebolt.Properties.C01
import Firebolt.Properties.ExecFlow
import Firebolt.Properties.ExecNet
import Firebolt.Generated.Source
import Firebolt.Expected.Source
import Firebolt.Generated.Closure
import Firebolt.Expected.Closure
/-!
# C02 — Failed events reach exactly the node's own error handler, once
Denotational part (every tree, oracle, stream); the operational part (every interleaving) is in `Properties/Exec*.lean`.
-/
namespace Firebolt.C02
open Firebolt Firebolt.Flow

/-- the handler is offered exactly one report per failed event, carrying that event; succeeded and filtered events produce none -/
theorem reports_exact (o : Oracle) (s : NSpec) (input : List String) (x : String) :
    ((failedEvents o s input).map errPayload).count (errPayload x) = (input.filter (fun e => o s e = .error)).count x := by
  unfold failedEvents
  have inj : ∀ a b : String, errPayload a = errPayload b → a = b := by
    intro a b h
    unfold errPayload at h
    have h1 : ("E(" ++ a).toList ++ ")".toList = ("E(" ++ b).toList ++ ")".toList := by
      simpa [String.toList_append] using congrArg String.toList h
    have h2 := List.append_cancel_right h1
    have h3 : "E(".toList ++ a.toList = "E(".toList ++ b.toList := by simpa [String.toList_append] using h2
    exact String.ext (List.append_cancel_left h3)
  induction (input.filter (fun e => o s e = .error)) with
  | nil => simp
  | cons e es ih =>
    simp only [List.map_cons, List.count_cons, ih]
    by_cases h : e = x
    · subst h; simp
    · have : errPayload e ≠ errPayload x := fun he => h (inj e x he)
      simp [h, this]

theorem report_only_for_failures (o : Oracle) (s : NSpec) (input : List String) (e : String) :
    e ∈ failedEvents o s input ↔ e ∈ input ∧ o s e = .error := by
  unfold failedEvents; simp

/-- the reports of a node go to its own handler and to no other node: the handler's input is a function of the parent's
input alone, children are offered `passed` (which contains no report of this node) -/
theorem handler_gets_reports (o : Oracle) (input : List String) (s : NSpec) (cs : List FNode) (hs : NSpec) (hcs : List FNode) (hh : Option FNode)
    (hd : s.disabled = false) :
    account o hs ((failedEvents o s input).map errPayload) ∈ flowN o input (.mk s cs (some (.mk hs hcs hh))) := by
  simp [flowN, hd, flowH]

/-- a node without a handler only counts the failure -/
theorem no_handler_only_counts (o : Oracle) (input : List String) (s : NSpec) (cs : List FNode) (hd : s.disabled = false) :
    flowN o input (.mk s cs none) = account o s input :: flowL o (passed o s input) cs ∧
    (account o s input).failed = count o s input isError := by
  simp [flowN, hd, flowH, account]

theorem skeleton_handleFailure : Generated.handleFailure = Expected.handleFailure := by rfl
theorem skeleton_handleResult : Generated.handleResult = Expected.handleResult := by rfl
theorem skeleton_invokeProcessorAsync : Generated.invokeProcessorAsync = Expected.invokeProcessorAsync := by rfl
theorem skeleton_initNodeContextHierarchy : Generated.initNodeContextHierarchy = Expected.initNodeContextHierarchy := by rfl
theorem skeleton_startWorkers : Generated.startWorkers = Expected.startWorkers := by rfl
theorem skeleton_runNode : Generated.runNode = Expected.runNode := by rfl


open Firebolt.Exec in
/-- for every interleaving: a non-discarding handler received exactly one report per failed event, carrying that event -/
theorem handler_edge_any_schedule (c : Cfg) (caps : Nat → Nat) (disc : Nat → Bool) (as : List Act) (s : St)
    (hr : run c (init c caps disc) as = some s) (ht : Terminal c s) (hh : c.hasHandler = true) (hd : (s.outs c.nChildren).discard = false) :
    (s.enq c.nChildren).Perm (s.upSent.filter (errorB c)) := terminal_handler c s (reachable_all c caps disc as s hr) ht hh hd


open Firebolt.Exec in
/-- **C02 on the whole tree, every global schedule**: at quiescence of a node and its error handler, the handler's receipts
plus the counted drops at its full buffer are exactly one report per failed event of that node, carrying that event -/
theorem tree_handler_any_global_schedule (cfg : Path → Cfg) (caps : Path → Nat) (disc : Path → Bool) (sched : List (Path × Act)) (N : Net)
    (hr : grun (ginit cfg caps disc) sched = some N) (p : Path) (hh : (cfg p).hasHandler = true)
    (htp : Terminal (cfg p) (N.st p)) (htk : Terminal (cfg ((cfg p).nChildren :: p)) (N.st ((cfg p).nChildren :: p))) :
    ((N.st ((cfg p).nChildren :: p)).recvd ++ (N.st p).dropped (cfg p).nChildren).Perm ((N.st p).recvd.filter (errorB (cfg p))) := by
  obtain ⟨hG, hcfg, _⟩ := reachable_ginv cfg caps disc sched N hr
  subst hcfg
  exact (tree_handler_edge N hG p hh htp htk).1


/-! ### functions the model's assumptions rest on (construction, wiring, surrounding calls) are unchanged -/
theorem source_getNodeType : GeneratedSrc.getNodeType = ExpectedSrc.getNodeType := by rfl
theorem source_invokeProcessorSync : GeneratedSrc.invokeProcessorSync = ExpectedSrc.invokeProcessorSync := by rfl
theorem source_invokeProcessorFanout : GeneratedSrc.invokeProcessorFanout = ExpectedSrc.invokeProcessorFanout := by rfl

/-! ### influence closure: the pinned functions, and every function of the repository that writes a struct field or package
variable they read, are unchanged (digests regenerated from /repo on every run; a difference names the functions) -/
/-! ### The code itself, translated (`Generated/Trans.lean`, rewritten from /repo on every run by extractor/translate.go)

The `translated_*` theorems are about MiniGo terms the translator produced from the current Go source: for every
environment the translated fragment does what the hand-written model function says.  They are semantic obligations —
a rewrite that preserves the behaviour keeps them provable, a changed comparison, bound or argument does not. -/
section Translated
open Firebolt.MiniGo Firebolt.TransBase

/-- a failed event reaches handleFailure and nothing else: no child delivery, no success or filter count -/
theorem translated_failure_only_to_handler (σ : Env) (h : σ "err" ≠ 0) :
    obs Trans.handleResult σ = ⟨[("nc.handleFailure", [σ "event", σ "err"])], none, false⟩ := by
  rw [C01.translated_handleResult]; simp [TransExpected.handleResult, h]

/-- and handleFailure is reached by nothing but a failure -/
theorem translated_handler_only_for_failures (σ : Env) (h : σ "err" = 0) :
    ∀ a, ("nc.handleFailure", a) ∉ (obs Trans.handleResult σ).calls := by
  rw [C01.translated_handleResult]; by_cases h2 : σ "len(result)" = 0 <;> simp [TransExpected.handleResult, h, h2]

/-- handleFailure: the failure is counted once; with an error handler configured, the report is built from the very event
and error handed in and delivered to that handler through deliverToChild (so its discard_on_full_buffer setting applies - F4);
without one nothing else happens -/
theorem translated_handleFailure (σ : Env) :
    obs Trans.handleFailure σ = TransExpected.handleFailure σ := by
  by_cases h : σ "nc.ErrorHandler" = 0 <;> minigo_simp [TransExpected.handleFailure, Trans.handleFailure, h]

end Translated

theorem closure_unchanged : GeneratedClo.C02 = ExpectedClo.C02 := by rfl

end Firebolt.C02
