import Firebolt.Properties.C01
/-!
# C03 — Clean shutdown drains the whole pipeline and orders node lifecycles
The invariants under every interleaving are proved on the node component model (`Properties/ExecCascade.lean`, imported by
the checks of this property); this file pins the shape of the code the model transcribes.
-/
namespace Firebolt.C03
open Firebolt

theorem skeleton_runNode : Generated.runNode = Expected.runNode := by rfl
theorem skeleton_startWorkers : Generated.startWorkers = Expected.startWorkers := by rfl
theorem skeleton_execute : Generated.execute = Expected.execute := by rfl
theorem skeleton_waitTimeout : Generated.waitTimeout = Expected.waitTimeout := by rfl
theorem skeleton_superviseSource : Generated.superviseSource = Expected.superviseSource := by rfl
theorem skeleton_shutdown : Generated.shutdown = Expected.shutdown := by rfl

end Firebolt.C03
