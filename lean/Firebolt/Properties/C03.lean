import Firebolt.TransExpected
import Firebolt.Properties.TransBase
import Firebolt.Properties.C01
import Firebolt.Properties.ExecCompose
import Firebolt.Properties.ExecNet
import Firebolt.Properties.ExecLive
import Firebolt.Properties.ExecRank
import Firebolt.Generated.Closure
import Firebolt.Expected.Closure
/-!
# C03 — Clean shutdown drains the whole pipeline and orders node lifecycles
The invariants under every interleaving are proved on the node component model (`Properties/ExecCascade.lean`, imported by
the checks of this property); this file pins the shape of the code the model transcribes.
-/
namespace Firebolt.C03
open Firebolt

theorem skeleton_runNode : Generated.runNode = Expected.runNode := by rfl
theorem skeleton_startWorkers : Generated.startWorkers = Expected.startWorkers := by rfl
theorem skeleton_execute : Generated.execute = Expected.execute := by rfl
theorem skeleton_waitTimeout : Generated.waitTimeout = Expected.waitTimeout := by rfl
theorem skeleton_superviseSource : Generated.superviseSource = Expected.superviseSource := by rfl
theorem skeleton_shutdown : Generated.shutdown = Expected.shutdown := by rfl


/-! ### the invariants of the node component model, for every schedule (proved in ExecCascade / ExecFlow) -/
open Firebolt.Exec in
/-- no send on a closed channel, no double close — under every interleaving of workers, async completions, upstream, consumers -/
theorem no_panic_any_schedule (c : Cfg) (caps : Nat → Nat) (disc : Nat → Bool) (as : List Act) (s : St)
    (hr : run c (init c caps disc) as = some s) : s.panic = false := reachable_no_panic c caps disc as s hr

open Firebolt.Exec in
/-- Shutdown begins only after every processing call of the node has returned, and no worker can take another event -/
theorem shutdown_after_all_processing (c : Cfg) (caps : Nat → Nat) (disc : Nat → Bool) (as : List Act) (s : St)
    (hr : run c (init c caps disc) as = some s) (hs : s.shutStarted = true) (w : Nat) (hw : w < c.W) : (s.pc w).live = false :=
  shutdown_after_processing c s (reachable_inv c caps disc as s hr) hs w hw

open Firebolt.Exec in
/-- no event is handed to a node after its Shutdown has begun -/
theorem no_event_after_shutdown_began (c : Cfg) (caps : Nat → Nat) (disc : Nat → Bool) (as : List Act) (s s' : St)
    (hr : run c (init c caps disc) as = some s) (hs : s.shutStarted = true) (w : Nat) : step c s (.recv w) ≠ some s' :=
  fun h => no_event_after_shutdown c s s' (reachable_inv c caps disc as s hr) hs w h

open Firebolt.Exec in
/-- children and error handler stay open until the node's Shutdown has returned; when they are closed nothing is outstanding -/
theorem children_closed_after_shutdown_returned (c : Cfg) (caps : Nat → Nat) (disc : Nat → Bool) (as : List Act) (s : St)
    (hr : run c (init c caps disc) as = some s) (k : Nat) (hk : (s.outs k).closed = true) :
    s.shutDone = true ∧ s.pending = [] ∧ s.cbs = [] ∧ ∀ w, w < c.W → (s.pc w).live = false :=
  closed_after_shutdown c s (reachable_inv c caps disc as s hr) k hk

open Firebolt.Exec in
/-- Shutdown and the closes are performed by at most one worker (exactly-once via sync.Once) -/
theorem shutdown_by_single_holder (c : Cfg) (caps : Nat → Nat) (disc : Nat → Bool) (as : List Act) (s : St)
    (hr : run c (init c caps disc) as = some s) : cnt c.W s.pc Pc.holder ≤ 1 := single_holder c s (reachable_inv c caps disc as s hr)

open Firebolt.Exec in
/-- a worker leaves only when its input is closed and drained; at quiescence everything sent was handed over and resolved -/
theorem drained_at_quiescence (c : Cfg) (caps : Nat → Nat) (disc : Nat → Bool) (as : List Act) (s : St)
    (hr : run c (init c caps disc) as = some s) (ht : Terminal c s) : s.upSent = s.recvd ∧ s.recvd.Perm s.resolved ∧ s.inp = [] :=
  terminal_drained c s (reachable_all c caps disc as s hr) ht


/-! ### the contract that composes components into a tree (ExecCompose) -/
open Firebolt.Exec in
/-- parent side: once a child's (or the handler's) channel is closed the parent never sends on it nor closes it again -/
theorem parent_silent_after_close (c : Cfg) (caps : Nat → Nat) (disc : Nat → Bool) (as : List Act) (s s' : St)
    (hr : run c (init c caps disc) as = some s) (a : Act) (k : Nat) (hk : (s.outs k).closed = true)
    (hs : step c s a = some s') (hnd : ∀ j, a ≠ .downRecv j) :
    s'.enq k = s.enq k ∧ s'.offered k = s.offered k ∧ (s'.outs k).closed = true ∧ s'.panic = false :=
  after_close_silent c s s' a (reachable_inv c caps disc as s hr) k hk hs hnd

open Firebolt.Exec in
/-- child side: while its input is open the child accepts a send or the close from upstream in every state, and nothing the
child does itself closes its input -/
theorem child_accepts_upstream (c : Cfg) (s : St) (h : s.inpClosed = false) (e : Ev) :
    (step c s (.upSend e)).isSome = true ∧ (step c s .upClose).isSome = true ∧
    (∀ a s', step c s a = some s' → a ≠ .upClose → s'.inpClosed = false) :=
  ⟨(upstream_enabled c s h e).1, (upstream_enabled c s h e).2, fun a s' hs hne => by rw [own_actions_keep_input_open c s s' a hs hne]; exact h⟩


/-! ### the whole tree, every global schedule (product model `Model/ExecNet.lean`) -/
open Firebolt.Exec in
/-- **the cascade across an edge**: the Shutdown of a child or error handler begins only after the Shutdown of its parent
has returned; by then no worker of the parent is processing or delivering and no completion is outstanding -/
theorem tree_cascade_any_global_schedule (cfg : Path → Cfg) (caps : Path → Nat) (disc : Path → Bool) (sched : List (Path × Act)) (N : Net)
    (hr : grun (ginit cfg caps disc) sched = some N) (p : Path) (k : Nat) (hk : k < (cfg p).K) (hW : 0 < (cfg (k :: p)).W)
    (hs : (N.st (k :: p)).shutStarted = true) :
    (N.st p).shutDone = true ∧ (N.st p).pending = [] ∧ (N.st p).cbs = [] ∧ ∀ w, w < (cfg p).W → ((N.st p).pc w).live = false := by
  obtain ⟨hG, hcfg, _⟩ := reachable_ginv cfg caps disc sched N hr
  subst hcfg
  exact tree_cascade N hG p k hk hW hs

open Firebolt.Exec in
/-- nowhere in the tree is a closed channel sent on or closed twice -/
theorem tree_no_panic_any_global_schedule (cfg : Path → Cfg) (caps : Path → Nat) (disc : Path → Bool) (sched : List (Path × Act)) (N : Net)
    (hr : grun (ginit cfg caps disc) sched = some N) (p : Path) : (N.st p).panic = false := by
  obtain ⟨hG, _, _⟩ := reachable_ginv cfg caps disc sched N hr
  exact tree_no_panic N hG p

open Firebolt.Exec in
/-- at global quiescence everything the source handed over has been received and resolved at every node: nothing is left
in any channel of the tree -/
theorem tree_drained_any_global_schedule (cfg : Path → Cfg) (caps : Path → Nat) (disc : Path → Bool) (sched : List (Path × Act)) (N : Net)
    (hr : grun (ginit cfg caps disc) sched = some N) (p : Path) (k : Nat) (hk : k < (cfg p).K)
    (htk : Terminal (cfg (k :: p)) (N.st (k :: p))) : ((N.st p).outs k).buf = [] ∧ (N.st p).enq k = (N.st (k :: p)).recvd := by
  obtain ⟨hG, hcfg, _⟩ := reachable_ginv cfg caps disc sched N hr
  subst hcfg
  obtain ⟨d1, _, d3⟩ := terminal_drained _ _ (hG.all (k :: p)) htk
  obtain ⟨l1, _, l3⟩ := link_fields N hG.link p k hk
  exact ⟨by rw [← l1, d3], by rw [← l3, d1]⟩


open Firebolt.Exec in
/-- **the drain cannot get stuck** (progress): in every state of the whole tree reachable under any global schedule, once
the source has finished, either every node is terminal — so, by `tree_drained_any_global_schedule`, everything has been
processed and every Shutdown has run — or some worker or pending completion of some node can take a step.  (Trees of finite
depth, at least one worker per node, buffers of size ≥ 1; that node code returns is what makes the enabled step happen.) -/
theorem tree_drain_cannot_get_stuck (cfg : Path → Cfg) (caps : Path → Nat) (disc : Path → Bool) (sched : List (Path × Act)) (N : Net) (d : Nat)
    (hr : grun (ginit cfg caps disc) sched = some N) (hd : FiniteDepth cfg d) (hW : ∀ p, 0 < (cfg p).W) (hcap : ∀ p, 1 ≤ caps p)
    (hsrc : (N.st []).inpClosed = true) :
    (∀ p, inTree cfg p → Terminal (cfg p) (N.st p)) ∨ ∃ p a, nonEnv a = true ∧ (gstep N p a).isSome = true :=
  deadlock_free cfg caps disc sched N d hr hd hW hcap hsrc


open Firebolt.Exec in
/-- **the drain terminates under every scheduler**: once the source has finished, any continuation without source actions
— whatever steps of whatever workers and completions, in any order — has at most `Phi N d` steps (the work still ahead of
the tree, a number computed from the state), and a continuation after which nothing can move has left every node terminal -/
theorem tree_drain_terminates (cfg : Path → Cfg) (caps : Path → Nat) (disc : Path → Bool) (d : Nat)
    (pre cont : List (Path × Act)) (N N' : Net)
    (hpre : grun (ginit cfg caps disc) pre = some N) (hcont : grun N cont = some N')
    (hd : FiniteDepth cfg d) (hW : ∀ p, 0 < (cfg p).W) (hcap : ∀ p, 1 ≤ caps p)
    (hsrc : (N.st []).inpClosed = true) (hs : ∀ pa ∈ cont, nonEnv pa.2 = true) :
    cont.length ≤ Phi N d ∧
    ((∀ p a, nonEnv a = true → gstep N' p a = none) → ∀ p, inTree cfg p → Terminal (cfg p) (N'.st p)) :=
  drain_terminates_any cfg caps disc d pre cont N N' hpre hcont hd hW hcap hsrc hs

/-! ### influence closure: the pinned functions, and every function of the repository that writes a struct field or package
variable they read, are unchanged (digests regenerated from /repo on every run; a difference names the functions) -/
/-! ### The code itself, translated (`Generated/Trans.lean`, rewritten from /repo on every run by extractor/translate.go)

The `translated_*` theorems are about MiniGo terms the translator produced from the current Go source: for every
environment the translated fragment does what the hand-written model function says.  They are semantic obligations —
a rewrite that preserves the behaviour keeps them provable, a changed comparison, bound or argument does not. -/
section Translated
open Firebolt.MiniGo Firebolt.TransBase

/-- one round of a worker's loop in runNode, translated from the source.  A stop signal shuts the node down and ends the
worker.  An event is processed.  At the end of the input (`!ok`) the worker announces itself done, **waits for all workers
of the node**, and then exactly the one caller that sync.Once admits runs the node's Shutdown, **after that** closes every
child's input, and after that the error handler's — then the worker ends.  This is the cascade order of the statement, read
off the code for every environment. -/
theorem translated_runNodeBody (σ : Env) (hs : σ "select#0" = 0 ∨ σ "select#0" = 1) :
    obs Trans.exRunNodeBody σ = TransExpected.exRunNodeBody σ := by
  rcases hs with h | h <;> by_cases h1 : σ "recv node.Ch#1" = 0 <;> by_cases h2 : σ "node.ShutdownOnce.Do#0" = 0 <;>
  by_cases h3 : σ "node.ErrorHandler" = 0 <;>
  minigo_simp [Trans.exRunNodeBody, TransExpected.exRunNodeBody, TransExpected.cascadeCalls, h, h1, h2, h3]

/-- no event is processed in a round that sees the end of the input, and Shutdown is only ever reached through the stop
signal or through sync.Once after the wait for all workers -/
theorem translated_shutdown_after_wait (σ : Env) (hs : σ "select#0" = 1) :
    let cs := (obs Trans.exRunNodeBody σ).calls.map (·.1)
    ("shutDownNode" ∈ cs →
      ∃ pre post, cs = pre ++ ["node.WaitGroup.Wait", "node.ShutdownOnce.Do", "shutDownNode"] ++ post ∧
        "node.ProcessEvent" ∉ cs) := by
  rw [translated_runNodeBody σ (Or.inr hs)]
  by_cases h1 : σ "recv node.Ch#1" = 0 <;> by_cases h2 : σ "node.ShutdownOnce.Do#0" = 0 <;>
  by_cases h3 : σ "node.ErrorHandler" = 0 <;> simp [TransExpected.exRunNodeBody, TransExpected.cascadeCalls, hs, h1, h2, h3]
  · exact ⟨["select", "recv node.Ch", "node.WaitGroup.Done"], ["foreach node.Children: close"], by simp⟩
  · exact ⟨["select", "recv node.Ch", "node.WaitGroup.Done"], ["foreach node.Children: close", "close"], by simp⟩

/-- the node's Shutdown hook is called once per call of the closure, whether or not it fails -/
theorem translated_shutDownNode (σ : Env) :
    (obs Trans.exShutDownNode σ).calls = [("node.NodeProcessor.Shutdown", [])] ∧ (obs Trans.exShutDownNode σ).stuck = false := by
  by_cases h : σ "node.NodeProcessor.Shutdown#0" = 0 <;> minigo_simp [Trans.exShutDownNode, h]

section ModelLink
open Firebolt.Exec
/-- the action the operational model lets worker `w` take next during the close cascade, by its program counter -/
def cascadeNext (w : Nat) : Pc → Option Act
  | .c1 => some (.wgDone w)
  | .c2 => some (.wgWait w)
  | .c3 => some (.onceEnter w)
  | .hSh => some (.shutEnter w)
  | .hShIn => some (.shutExit w)
  | .hClose => some (.closeAll w)
  | _ => none

/-- the call of the Go code each cascade action of the model stands for (`shutExit` is the return of `shutDownNode`; `closeAll`
is the loop over the children followed by the handler's close) -/
def cascadeCallOf : Act → List String
  | .wgDone _ => ["node.WaitGroup.Done"]
  | .wgWait _ => ["node.WaitGroup.Wait"]
  | .onceEnter _ => ["node.ShutdownOnce.Do"]
  | .shutEnter _ => ["shutDownNode"]
  | .closeAll _ => ["foreach node.Children: close", "close"]
  | _ => []

/-- in the model a worker in the cascade can only take the action its program counter prescribes: the cascade is a straight line -/
theorem model_cascade_is_straight_line (c : Cfg) (s s' : St) (w : Nat) (a : Act)
    (ha : a = .wgDone w ∨ a = .wgWait w ∨ a = .onceEnter w ∨ a = .shutEnter w ∨ a = .shutExit w ∨ a = .closeAll w)
    (hs : step c s a = some s') : cascadeNext w (s.pc w) = some a := by
  rcases ha with h | h | h | h | h | h <;> subst h <;> simp only [step] at hs <;>
    (split at hs <;> try contradiction) <;> (split at hs <;> try contradiction) <;> simp_all [cascadeNext]

/-- **the model's cascade and the code's cascade are the same sequence**: the calls the translated worker loop makes at the end of
its input, when sync.Once admits it and the node has a handler, are — in order — the calls the model's straight line
`wgDone, wgWait, onceEnter, shutEnter, shutExit, closeAll` stands for -/
theorem model_cascade_matches_code (σ : Env) (w : Nat) (ho : σ "node.ShutdownOnce.Do#0" ≠ 0) (hh : σ "node.ErrorHandler" ≠ 0) :
    (TransExpected.cascadeCalls σ).map (·.1) =
      ([Act.wgDone w, .wgWait w, .onceEnter w, .shutEnter w, .shutExit w, .closeAll w].flatMap cascadeCallOf) := by
  simp [TransExpected.cascadeCalls, cascadeCallOf, ho, hh]
end ModelLink

end Translated

theorem closure_unchanged : GeneratedClo.C03 = ExpectedClo.C03 := by rfl

end Firebolt.C03
