import Firebolt.TransExpected
import Firebolt.Properties.TransBase
import Firebolt.Model.EsSink
import Firebolt.Generated.Skeleton
import Firebolt.Expected.Skeleton
import Firebolt.Generated.Source
import Firebolt.Expected.Source
import Firebolt.Generated.Closure
import Firebolt.Expected.Closure
/-!
# C14 — Elasticsearch sink answers every index request exactly once, within its bounds

Theorems about `Model/EsSink.lean` for every batch, every per-document/per-attempt outcome script and every retry budget.
One clause of the statement is FALSE on the unchanged code (known finding F8: a clean Shutdown drops the partial batch);
its negation is proved with a witness and everything else is proved for histories without an early shutdown.
-/
namespace Firebolt.C14
open Firebolt Firebolt.EsSink

/-- **per-attempt conservation**: every document of an attempt is answered now xor carried to the next attempt -/
theorem handle_conserve (retry max : Nat) (l : List (Doc × Outcome)) (d : Doc) :
    ((handle retry max l).1.map (·.1)).count d + (handle retry max l).2.count d = (l.map (·.1)).count d := by
  induction l with
  | nil => simp [handle]
  | cons p rest ih =>
    obtain ⟨d', o⟩ := p
    simp only [handle]
    cases o <;> simp only [] <;> (try split) <;> simp [List.count_cons] <;> omega

theorem attempt_conserve (retry max : Nat) (l : List (Doc × Outcome)) (d : Doc) :
    ((attempt retry max l).1.map (·.1)).count d + (attempt retry max l).2.count d = (l.map (·.1)).count d := by
  unfold attempt
  split
  · simp [List.map_map, Function.comp_def]
  · exact handle_conserve retry max l d

theorem carried_none_at_max (max : Nat) (l : List (Doc × Outcome)) : (handle max max l).2 = [] := by
  induction l with
  | nil => simp [handle]
  | cons p rest ih => obtain ⟨d, o⟩ := p; simp only [handle]; cases o <;> simp [ih]

theorem attempt_none_at_max (max : Nat) (l : List (Doc × Outcome)) : (attempt max max l).2 = [] := by
  unfold attempt; split
  · rfl
  · exact carried_none_at_max max l

/-- **exactly once**: over the whole retry chain every accepted document is answered exactly as often as it was accepted,
for every outcome script -/
theorem chain_exactly_once (max : Nat) (script : Doc → Nat → Outcome) (fuel retry : Nat) (docs : List Doc)
    (hr : retry ≤ max) (hf : max - retry < fuel) (d : Doc) :
    ((chain max script fuel retry docs).map (·.1)).count d = docs.count d := by
  induction fuel generalizing retry docs with
  | zero => omega
  | succ fuel ih =>
    simp only [chain]
    have hc := attempt_conserve retry max (docs.map (fun d => (d, script d retry))) d
    have hm : (docs.map (fun d => (d, script d retry))).map (·.1) = docs := by
      simp [List.map_map, Function.comp_def]
    rw [hm] at hc
    by_cases he : retry = max
    · subst he
      have := attempt_none_at_max retry (docs.map (fun d => (d, script d retry)))
      simp [this] at hc
      simp [List.count_append]; omega
    · simp only [he, if_false, List.map_append, List.count_append]
      rw [ih (retry + 1) _ (by omega) (by omega)]
      omega

theorem handle_success_only_if_ok (retry max : Nat) (l : List (Doc × Outcome)) (d : Doc)
    (h : (d, Ans.success) ∈ (handle retry max l).1) : (d, Outcome.ok) ∈ l := by
  induction l with
  | nil => simp [handle] at h
  | cons p rest ih =>
    obtain ⟨d', o⟩ := p
    simp only [handle] at h
    cases o with
    | ok =>
      simp only [List.mem_cons, Prod.mk.injEq] at h
      rcases h with ⟨rfl, _⟩ | h
      · exact List.mem_cons_self ..
      · exact List.mem_cons_of_mem _ (ih h)
    | mapping =>
      simp only [List.mem_cons, Prod.mk.injEq] at h
      rcases h with ⟨_, h⟩ | h
      · cases h
      · exact List.mem_cons_of_mem _ (ih h)
    | retryable =>
      simp only [] at h
      split at h
      · simp only [List.mem_cons, Prod.mk.injEq] at h
        rcases h with ⟨_, h⟩ | h
        · cases h
        · exact List.mem_cons_of_mem _ (ih h)
      · exact List.mem_cons_of_mem _ (ih h)

/-- success is answered only for a document Elasticsearch accepted (2xx) at that attempt -/
theorem success_only_if_ok (retry max : Nat) (l : List (Doc × Outcome)) (d : Doc)
    (h : (d, Ans.success) ∈ (attempt retry max l).1) : (d, Outcome.ok) ∈ l := by
  unfold attempt at h
  split at h
  · rename_i hall
    obtain ⟨x, hx, e⟩ := List.mem_map.1 h
    have := List.all_eq_true.1 hall x hx
    simp at e this
    obtain ⟨rfl, _⟩ := e
    have hx2 : x = (x.1, x.2) := rfl
    rw [hx2, this] at hx; exact hx
  · exact handle_success_only_if_ok retry max l d h

/-- a mapping conflict is answered with an error at once and never sent again; a retryable failure is carried over until
the retry budget is used up, then answered with an error -/
theorem carried_only_retryable (retry max : Nat) (l : List (Doc × Outcome)) (d : Doc)
    (h : d ∈ (handle retry max l).2) : (d, Outcome.retryable) ∈ l ∧ retry ≠ max := by
  induction l with
  | nil => simp [handle] at h
  | cons p rest ih =>
    obtain ⟨d', o⟩ := p
    simp only [handle] at h
    cases o with
    | ok => have := ih h; exact ⟨List.mem_cons_of_mem _ this.1, this.2⟩
    | mapping => have := ih h; exact ⟨List.mem_cons_of_mem _ this.1, this.2⟩
    | retryable =>
      simp only [] at h
      split at h
      · have := ih h; exact ⟨List.mem_cons_of_mem _ this.1, this.2⟩
      · rename_i hne
        rcases List.mem_cons.1 h with rfl | h
        · exact ⟨List.mem_cons_self .., hne⟩
        · have := ih h; exact ⟨List.mem_cons_of_mem _ this.1, this.2⟩

/-- no bulk request is made beyond the retry budget: attempts are numbered `retry .. max` -/
theorem sends_within_budget (max : Nat) (script : Doc → Nat → Outcome) (fuel retry : Nat) (docs : List Doc) (hr : retry ≤ max) :
    ∀ s ∈ sends max script fuel retry docs, retry ≤ s.1 ∧ s.1 ≤ max := by
  induction fuel generalizing retry docs with
  | zero => intro s hs; simp [sends] at hs
  | succ fuel ih =>
    intro s hs
    simp only [sends] at hs
    split at hs
    · simp at hs
    · rcases List.mem_cons.1 hs with rfl | hs
      · exact ⟨Nat.le_refl _, hr⟩
      · split at hs
        · simp at hs
        · have := ih (retry + 1) _ (by omega) s hs
          omega

/-- what is re-sent at the next attempt is a sub-multiset of what was sent before: nothing is invented -/
theorem resend_subset (retry max : Nat) (l : List (Doc × Outcome)) (d : Doc) :
    (attempt retry max l).2.count d ≤ (l.map (·.1)).count d := by
  have := attempt_conserve retry max l d; omega

/-! ### batching -/

theorem chunks_le (bs : Nat) (fuel : Nat) (l : List Doc) : ∀ c ∈ chunks bs fuel l, c.length ≤ bs := by
  induction fuel generalizing l with
  | zero => intro c hc; simp [chunks] at hc
  | succ fuel ih =>
    intro c hc
    simp only [chunks] at hc
    split at hc
    · simp at hc
    · rcases List.mem_cons.1 hc with rfl | hc
      · simp [List.length_take]; omega
      · exact ih _ c hc

/-- batching neither loses, nor duplicates, nor reorders documents -/
theorem chunks_flatten (bs : Nat) (hbs : 0 < bs) (fuel : Nat) (l : List Doc) (hf : l.length ≤ fuel) :
    (chunks bs fuel l).flatten = l := by
  induction fuel generalizing l with
  | zero => have : l = [] := List.length_eq_zero_iff.1 (by omega); subst this; simp [chunks]
  | succ fuel ih =>
    simp only [chunks]
    split
    · rename_i he; simp at he; simp [he]
    · rename_i he
      have hl : 0 < l.length := by
        cases l with
        | nil => simp at he
        | cons a t => simp
      simp only [List.flatten_cons]
      rw [ih (l.drop bs) (by simp [List.length_drop]; omega)]
      exact List.take_append_drop bs l

/-! ### worker pool -/

/-- at most `workers` bulk requests are in flight: tokens are conserved by every start/finish -/
theorem pool_conserved (p : Pool) (ops : List PoolOp) :
    (ops.foldl Pool.step p).free + (ops.foldl Pool.step p).inFlight = p.free + p.inFlight := by
  induction ops generalizing p with
  | nil => rfl
  | cons op ops ih =>
    simp only [List.foldl_cons]
    rw [ih]
    cases op <;> simp only [Pool.step] <;> split <;> simp <;> omega

theorem pool_bound (workers : Nat) (ops : List PoolOp) :
    (ops.foldl Pool.step ⟨workers, 0⟩).inFlight ≤ workers := by
  have := pool_conserved ⟨workers, 0⟩ ops
  simp at this; omega

/-! ### single documents (what the correspondence check compares) -/

/-- a document's own script determines its answer: success iff the first non-retryable verdict within the budget is ok -/
theorem docResult_success (max : Nat) (s : Nat → Outcome) (fuel retry : Nat) (hf : max - retry < fuel) (hr : retry ≤ max) :
    (docResult max s fuel retry).1 = .success ↔
      ∃ k, retry ≤ k ∧ k ≤ max ∧ s k = .ok ∧ ∀ j, retry ≤ j → j < k → s j = .retryable := by
  induction fuel generalizing retry with
  | zero => omega
  | succ fuel ih =>
    simp only [docResult]
    cases hs : s retry with
    | ok =>
      simp only []
      constructor
      · intro _; exact ⟨retry, Nat.le_refl _, hr, hs, fun j h1 h2 => by omega⟩
      · intro _; trivial
    | mapping =>
      simp only []
      constructor
      · intro h; cases h
      · rintro ⟨k, h1, h2, h3, h4⟩
        by_cases hk : k = retry
        · subst hk; rw [hs] at h3; cases h3
        · have := h4 retry (Nat.le_refl _) (by omega); rw [hs] at this; cases this
    | retryable =>
      simp only []
      by_cases he : retry = max
      · simp only [he, if_true]
        constructor
        · intro h; cases h
        · rintro ⟨k, h1, h2, h3, _⟩
          have : k = max := by omega
          subst this; subst he; rw [hs] at h3; cases h3
      · simp only [he, if_false]
        rw [ih (retry + 1) (by omega) (by omega)]
        constructor
        · rintro ⟨k, h1, h2, h3, h4⟩
          refine ⟨k, by omega, h2, h3, fun j hj1 hj2 => ?_⟩
          by_cases hj : j = retry
          · subst hj; exact hs
          · exact h4 j (by omega) hj2
        · rintro ⟨k, h1, h2, h3, h4⟩
          have hk : k ≠ retry := by intro e; subst e; rw [hs] at h3; cases h3
          exact ⟨k, by omega, h2, h3, fun j hj1 hj2 => h4 j (by omega) hj2⟩

/-- a document is sent at most `max + 1` times -/
theorem docResult_sends (max : Nat) (s : Nat → Outcome) (fuel retry : Nat) (hr : retry ≤ max) :
    (docResult max s fuel retry).2 ≤ max + 1 := by
  induction fuel generalizing retry with
  | zero => simp [docResult]; omega
  | succ fuel ih =>
    simp only [docResult]
    cases s retry <;> simp only [] <;> (try omega)
    split
    · omega
    · exact ih (retry + 1) (by omega)

/-! ### the finding: a clean Shutdown drops the partial batch -/

/-- clause "a clean Shutdown leaves no accepted request unanswered" is false for the code as it stands: three accepted
documents with batch size 10 are all dropped -/
theorem shutdown_drops_partial_batch : droppedByShutdown 10 [1, 2, 3] = [1, 2, 3] := by decide

/-- nothing is dropped exactly when the accepted documents fill whole batches -/
theorem shutdown_drop_iff (bs : Nat) (hbs : 0 < bs) (l : List Doc) :
    droppedByShutdown bs l = [] ↔ l.length % bs = 0 := by
  unfold droppedByShutdown
  have hne : bs ≠ 0 := by omega
  simp only [hne, if_false]
  rw [List.drop_eq_nil_iff]
  have := Nat.div_add_mod l.length bs
  constructor
  · intro h
    have : l.length / bs * bs = bs * (l.length / bs) := Nat.mul_comm ..
    omega
  · intro h
    have : l.length / bs * bs = bs * (l.length / bs) := Nat.mul_comm ..
    omega

/-- non-vacuity: a batch with all three outcomes, retry budget 2 -/
example :
    let script : Doc → Nat → Outcome := fun d k => if d = 1 then .ok else if d = 2 then .mapping else if d = 3 ∧ k < 2 then .retryable else if d = 3 then .ok else .retryable
    chain 2 script 3 0 [1, 2, 3, 4] = [(1, .success), (2, .indexError), (3, .success), (4, .indexError)] ∧
    sends 2 script 3 0 [1, 2, 3, 4] = [(0, [1, 2, 3, 4]), (1, [3, 4]), (2, [3, 4])] := by
  decide

end Firebolt.C14

namespace Firebolt.C14
open Firebolt Firebolt.EsSink

/-! ### the batch-level chain and the per-document script agree (what the correspondence check compares) -/

theorem handle_all_ok (retry max : Nat) (l : List (Doc × Outcome)) (h : l.all (fun x => x.2 = .ok) = true) :
    handle retry max l = (l.map (fun x => (x.1, Ans.success)), []) := by
  induction l with
  | nil => rfl
  | cons p rest ih =>
    obtain ⟨d, o⟩ := p
    simp only [List.all_cons, Bool.and_eq_true, decide_eq_true_eq] at h
    obtain ⟨ho, hr⟩ := h
    have ho' : o = .ok := ho
    subst ho'
    simp [handle, ih hr]

/-- the `Errors = false` shortcut of `doBulkIndex` answers exactly as the per-item loop would -/
theorem attempt_eq_handle (retry max : Nat) (l : List (Doc × Outcome)) : attempt retry max l = handle retry max l := by
  unfold attempt
  split
  · rename_i h; exact (handle_all_ok retry max l h).symm
  · rfl

theorem handle_answer (retry max : Nat) (l : List (Doc × Outcome)) (d : Doc) (a : Ans) (h : (d, a) ∈ (handle retry max l).1) :
    ∃ o, (d, o) ∈ l ∧ ((o = .ok ∧ a = .success) ∨ (o = .mapping ∧ a = .indexError) ∨ (o = .retryable ∧ retry = max ∧ a = .indexError)) := by
  induction l with
  | nil => simp [handle] at h
  | cons p rest ih =>
    obtain ⟨d', o⟩ := p
    simp only [handle] at h
    cases o with
    | ok =>
      simp only [List.mem_cons, Prod.mk.injEq] at h
      rcases h with ⟨rfl, rfl⟩ | h
      · exact ⟨.ok, List.mem_cons_self .., Or.inl ⟨rfl, rfl⟩⟩
      · obtain ⟨o, ho, hh⟩ := ih h; exact ⟨o, List.mem_cons_of_mem _ ho, hh⟩
    | mapping =>
      simp only [List.mem_cons, Prod.mk.injEq] at h
      rcases h with ⟨rfl, rfl⟩ | h
      · exact ⟨.mapping, List.mem_cons_self .., Or.inr (Or.inl ⟨rfl, rfl⟩)⟩
      · obtain ⟨o, ho, hh⟩ := ih h; exact ⟨o, List.mem_cons_of_mem _ ho, hh⟩
    | retryable =>
      simp only [] at h
      split at h
      · rename_i he
        simp only [List.mem_cons, Prod.mk.injEq] at h
        rcases h with ⟨rfl, rfl⟩ | h
        · exact ⟨.retryable, List.mem_cons_self .., Or.inr (Or.inr ⟨rfl, he, rfl⟩)⟩
        · obtain ⟨o, ho, hh⟩ := ih h; exact ⟨o, List.mem_cons_of_mem _ ho, hh⟩
      · obtain ⟨o, ho, hh⟩ := ih h; exact ⟨o, List.mem_cons_of_mem _ ho, hh⟩

/-- **every answer the chain gives a document is the answer its own script determines**: success exactly for a 2xx at the
attempt where the document stops being retryable, an error for a mapping conflict or an exhausted budget -/
theorem chain_answer_is_docResult (max : Nat) (script : Doc → Nat → Outcome) (fuel : Nat) : ∀ (retry : Nat) (docs : List Doc) (d : Doc) (a : Ans),
    retry ≤ max → max - retry < fuel → (d, a) ∈ chain max script fuel retry docs → a = (docResult max (script d) fuel retry).1 := by
  induction fuel with
  | zero => intro retry docs d a _ hf; omega
  | succ fuel ih =>
    intro retry docs d a hr hf hmem
    simp only [chain, attempt_eq_handle, List.mem_append] at hmem
    simp only [docResult]
    rcases hmem with hnow | hlater
    · obtain ⟨o, ho, hh⟩ := handle_answer retry max _ d a hnow
      obtain ⟨d', _, he⟩ := List.mem_map.1 ho
      simp only [Prod.mk.injEq] at he
      obtain ⟨rfl, rfl⟩ := he
      rcases hh with ⟨h1, rfl⟩ | ⟨h1, rfl⟩ | ⟨h1, h2, rfl⟩
      · rw [h1]
      · rw [h1]
      · rw [h1]; simp [h2]
    · by_cases he : retry = max
      · simp [he] at hlater
      · simp only [he, if_false] at hlater
        -- d was carried over, so it was retryable at this attempt
        have hd : d ∈ (handle retry max (docs.map (fun d => (d, script d retry)))).2 := by
          have := chain_exactly_once max script fuel (retry + 1) (handle retry max (docs.map (fun d => (d, script d retry)))).2 (by omega) (by omega) d
          have hc : 0 < ((chain max script fuel (retry + 1) (handle retry max (docs.map (fun d => (d, script d retry)))).2).map (·.1)).count d :=
            List.count_pos_iff.2 (List.mem_map.2 ⟨(d, a), hlater, rfl⟩)
          rw [this] at hc
          exact List.count_pos_iff.1 hc
        obtain ⟨hret, _⟩ := carried_only_retryable retry max _ d hd
        obtain ⟨d', _, he2⟩ := List.mem_map.1 hret
        simp only [Prod.mk.injEq] at he2
        obtain ⟨rfl, hs⟩ := he2
        rw [hs]; simp only [he, if_false]
        exact ih (retry + 1) _ d' a (by omega) (by omega) hlater


/-! ### the functions this model was transcribed from are unchanged (regenerated from /repo on every run) -/
theorem source_esSend : GeneratedSrc.esSend = ExpectedSrc.esSend := by rfl
theorem source_esRun : GeneratedSrc.esRun = ExpectedSrc.esRun := by rfl
theorem source_esStop : GeneratedSrc.esStop = ExpectedSrc.esStop := by rfl
theorem source_esBatch : GeneratedSrc.esBatch = ExpectedSrc.esBatch := by rfl
theorem source_esRetryBulkIndex : GeneratedSrc.esRetryBulkIndex = ExpectedSrc.esRetryBulkIndex := by rfl
theorem source_esDoBulkIndex : GeneratedSrc.esDoBulkIndex = ExpectedSrc.esDoBulkIndex := by rfl
theorem source_esHandleErrorResponses : GeneratedSrc.esHandleErrorResponses = ExpectedSrc.esHandleErrorResponses := by rfl
theorem source_esProcessAsync : GeneratedSrc.esProcessAsync = ExpectedSrc.esProcessAsync := by rfl
theorem source_esShutdown : GeneratedSrc.esShutdown = ExpectedSrc.esShutdown := by rfl


/-! ### functions the model's assumptions rest on (construction, wiring, surrounding calls) are unchanged -/
theorem source_esSetup : GeneratedSrc.esSetup = ExpectedSrc.esSetup := by rfl
theorem source_newElasticIndexClient : GeneratedSrc.newElasticIndexClient = ExpectedSrc.newElasticIndexClient := by rfl

/-! ### how the executor hands an event to an async node and reads its answer (the sink answers with the event it was given) -/
theorem source_newAsyncEvent : GeneratedSrc.newAsyncEvent = ExpectedSrc.newAsyncEvent := by rfl
theorem skeleton_invokeProcessorAsync : Generated.invokeProcessorAsync = Expected.invokeProcessorAsync := by rfl

/-! ### influence closure: the pinned functions, and every function of the repository that writes a struct field or package
variable they read, are unchanged (digests regenerated from /repo on every run; a difference names the functions) -/
/-! ### The code itself, translated (`Generated/Trans.lean`, rewritten from /repo on every run by extractor/translate.go)

The `translated_*` theorems are about MiniGo terms the translator produced from the current Go source: for every
environment the translated fragment does what the hand-written model function says.  They are semantic obligations —
a rewrite that preserves the behaviour keeps them provable, a changed comparison, bound or argument does not. -/
section Translated
open Firebolt.MiniGo Firebolt.TransBase

/-- the per-item body of handleErrorResponses: answered with success, answered with ES_INDEX_ERROR, carried to the next
attempt, or (a non-2xx item without an error object) neither — by status, error type and retry count -/
theorem translated_esItemBody (σ : Env) (hidx : σ "action" = σ "\"index\"") :
    (run Trans.esItemBody σ).stuck = false ∧
    (run Trans.esItemBody σ).calls =
      match esOutcome σ with
      | some .ok => [("req.Event.ReturnEvent", [σ "req.Event"])]
      | none => []
      | some .mapping => esErrCalls σ
      | some .retryable => ("append retryRequests", [σ "requests[bulkIndexPos]"]) ::
                           (if σ "retryCount" = σ "c.maxRetries" then esErrCalls σ else []) := by
  by_cases h1 : 200 ≤ σ "i.Status" <;> by_cases h2 : σ "i.Status" ≤ 299 <;> by_cases h3 : σ "i.Error" = 0 <;>
  by_cases h4 : σ "i.Error.Type" = σ "\"mapper_parsing_exception\"" <;> by_cases h5 : σ "retryCount" = σ "c.maxRetries" <;>
  minigo_simp [Trans.esItemBody, esOutcome, esErrCalls, hidx, h1, h2, h3, h4, h5]

/-- the model's `handle` on a single item, in the same terms: answered now / carried to the next attempt -/
theorem model_handle_single (retry max : Nat) (d : Doc) (o : Outcome) :
    handle retry max [(d, o)] =
      match o with
      | .ok => ([(d, .success)], [])
      | .mapping => ([(d, .indexError)], [])
      | .retryable => if retry = max then ([(d, .indexError)], []) else ([], [d]) := by
  cases o <;> simp [handle]

/-- what one iteration of the response walk reads for document `d` with outcome `o`: an "index" item whose status, error
object and error type are those of the outcome; `req` is the request at the item's position -/
def bindItem (σ : Env) (d : Doc) (o : Outcome) : Env :=
  let mp := σ "\"mapper_parsing_exception\""
  upd (upd (upd (upd (upd (upd σ "action" (σ "\"index\"")) "requests[bulkIndexPos]" d) "req.Event" d)
    "i.Status" (match o with | .ok => 200 | _ => 400))
    "i.Error" (match o with | .ok => 0 | _ => 1))
    "i.Error.Type" (match o with | .mapping => mp | _ => mp + 1)

/-- the two nested `for … range` loops of handleErrorResponses over a response with one "index" item per request: the body once
per item, in order; `ReturnEvent` / `ReturnError` answer the item's document, `retryRequests = append(retryRequests, req)`
carries it to the next attempt -/
def rangeItems (body : S) : List (Doc × Outcome) → Env → List (Doc × Ans) × List Doc
  | [], _ => ([], [])
  | (d, o) :: rest, σ =>
    let r := run body (bindItem σ d o)
    let k := rangeItems body rest r.env
    ((if r.calls.any (fun c => c.1 == "req.Event.ReturnEvent") then [(d, Ans.success)]
      else if r.calls.any (fun c => c.1 == "req.Event.ReturnError") then [(d, Ans.indexError)] else []) ++ k.1,
     (if r.calls.any (fun c => c.1 == "append retryRequests") then [d] else []) ++ k.2)

theorem esItemBody_frame (σ : Env) (x : String) (h1 : x ≠ "req") (h2 : x ≠ "isTypeConflict") (h3 : x ≠ "e") :
    (run Trans.esItemBody σ).env x = σ x := by
  by_cases a0 : σ "action" = σ "\"index\"" <;>
  by_cases a1 : 200 ≤ σ "i.Status" <;> by_cases a2 : σ "i.Status" ≤ 299 <;> by_cases a3 : σ "i.Error" = 0 <;>
  by_cases a4 : σ "i.Error.Type" = σ "\"mapper_parsing_exception\"" <;> by_cases a5 : σ "retryCount" = σ "c.maxRetries" <;>
  minigo_simp [Trans.esItemBody, a0, a1, a2, a3, a4, a5, h1, h2, h3]

/-- **the response walk of handleErrorResponses = the model's `handle`**: for every bulk response (one outcome per document)
the documents answered now, with what, in order, are `(handle retry max l).1`; the documents appended to the retry slice are
the retryable ones — which, unless this was the last allowed attempt (then the slice is dropped, see `translated_esTail`), are
`(handle retry max l).2` -/
theorem translated_esItems_loop (retry max : Nat) (l : List (Doc × Outcome)) : ∀ σ : Env,
    σ "retryCount" = retry → σ "c.maxRetries" = max →
    (rangeItems Trans.esItemBody l σ).1 = (handle retry max l).1 ∧
    (retry ≠ max → (rangeItems Trans.esItemBody l σ).2 = (handle retry max l).2) := by
  induction l with
  | nil => intro σ _ _; simp [rangeItems, handle]
  | cons x rest ih =>
    obtain ⟨d, o⟩ := x
    intro σ hr hm
    have f1 := esItemBody_frame (bindItem σ d o) "retryCount" (by decide) (by decide) (by decide)
    have f2 := esItemBody_frame (bindItem σ d o) "c.maxRetries" (by decide) (by decide) (by decide)
    have b1 : bindItem σ d o "retryCount" = retry := by simp [bindItem, hr]
    have b2 : bindItem σ d o "c.maxRetries" = max := by simp [bindItem, hm]
    have ih' := ih (run Trans.esItemBody (bindItem σ d o)).env (by rw [f1, b1]) (by rw [f2, b2])
    have hidx : bindItem σ d o "action" = bindItem σ d o "\"index\"" := by simp [bindItem]
    have hb := (translated_esItemBody (bindItem σ d o) hidx).2
    have hrm : (bindItem σ d o "retryCount" = bindItem σ d o "c.maxRetries") ↔ retry = max := by
      rw [b1, b2]; exact Int.ofNat_inj
    simp only [rangeItems, handle]
    rw [hb]
    cases o with
    | ok =>
      have : esOutcome (bindItem σ d Outcome.ok) = some .ok := by simp [esOutcome, bindItem]
      simp [this, ih'.1]; exact ih'.2
    | mapping =>
      have : esOutcome (bindItem σ d Outcome.mapping) = some .mapping := by simp [esOutcome, bindItem]
      simp [this, esErrCalls, ih'.1]; exact ih'.2
    | retryable =>
      have : esOutcome (bindItem σ d Outcome.retryable) = some .retryable := by
        simp [esOutcome, bindItem]; omega
      by_cases hq : retry = max
      · have hq' := hrm.mpr hq
        simp [this, esErrCalls, hq, hq', ih'.1]
      · have hq' : ¬ (bindItem σ d Outcome.retryable "retryCount" = bindItem σ d Outcome.retryable "c.maxRetries") :=
          fun e => hq (hrm.mp e)
        simp [this, esErrCalls, hq, hq', ih'.1, ih'.2 hq]

/-- after the walk: at the last allowed attempt ErrMaxRetries is returned and the retry slice is dropped (nothing is sent
again); otherwise the slice goes to `retryBulkIndex` with the retry count increased by one, on another goroutine -/
theorem translated_esTail (σ : Env) :
    obs Trans.esTail σ = TransExpected.esTail σ := by
  by_cases h : σ "retryCount" = σ "c.maxRetries" <;> minigo_simp [TransExpected.esTail, Trans.esTail, h]

end Translated

theorem closure_unchanged : GeneratedClo.C14 = ExpectedClo.C14 := by rfl

end Firebolt.C14
