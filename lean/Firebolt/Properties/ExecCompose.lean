import Firebolt.Properties.ExecFlow
/-!
# Composing node components into a tree: the assume/guarantee contract on a channel

A channel between a parent and a child appears twice: as a downstream channel `k` of the parent component and as the
input of the child component.  The child's model allows its upstream exactly two things — `upSend` while the input is
not closed, and one `upClose` — and nothing the child does itself changes whether its input is closed.  The parent's
model guarantees exactly that about channel `k`: once `k` is closed, no action of the parent sends on it or closes it
again, and `closed` never reverts.  So every run of the parent induces on channel `k` a trace `send* close?`, every
prefix of which is enabled in the child whatever the child's own actions in between.  (The product model of a whole tree
is not built; this is the contract that makes the per-component theorems apply to each node of a tree.)
-/
namespace Firebolt.Exec

/-- **guarantee (parent side)**: after a downstream channel has been closed, nothing the parent component does touches
it again — no send attempt completes on it, it is not closed a second time (no panic), it stays closed -/
theorem after_close_silent (c : Cfg) (s s' : St) (a : Act) (hi : Inv c s) (k : Nat) (hk : (s.outs k).closed = true)
    (hs : step c s a = some s') (hnotdown : ∀ j, a ≠ .downRecv j) :
    s'.enq k = s.enq k ∧ s'.offered k = s.offered k ∧ (s'.outs k).closed = true ∧ s'.panic = false := by
  obtain ⟨hsd, hp, hcb, hnl⟩ := closed_after_shutdown c s hi k hk
  have hnp := (step_inv c s s' a hi hs).no_panic
  have hod : s.onceDone = true := by
    have := hi.closed_iff k; rw [hk] at this
    cases hd : s.onceDone with
    | true => rfl
    | false => rw [hd] at this; simp at this
  cases a with
  | upSend e => simp only [step] at hs; split at hs <;> simp at hs; subst hs; exact ⟨rfl, rfl, hk, hi.no_panic⟩
  | upClose => simp only [step] at hs; split at hs <;> simp at hs; subst hs; exact ⟨rfl, rfl, hk, hi.no_panic⟩
  | recv w =>
    simp only [step] at hs; og hs
    rename_i hw; og hs
    rename_i e rest hpc _
    have := hnl w hw; rw [hpc] at this; simp [Pc.live] at this
  | procReturn w =>
    simp only [step] at hs; og hs
    rename_i hw; og hs
    rename_i e hpc
    have := hnl w hw; rw [hpc] at this; simp [Pc.live] at this
  | complete i =>
    simp only [step] at hs; og hs
    rename_i e he
    rw [hp] at he; simp at he
  | send w =>
    simp only [step] at hs; og hs
    rename_i hw; og hs
    rename_i k' x todo hpc
    have := hnl w hw; rw [hpc] at this; simp [Pc.live] at this
  | finish w =>
    simp only [step] at hs; og hs
    rename_i hw; og hs
    rename_i hpc
    have := hnl w hw; rw [hpc] at this; simp [Pc.live] at this
  | cbSend i =>
    simp only [step] at hs; og hs
    rename_i k' x todo he
    rw [hcb] at he; simp at he
  | cbFinish i =>
    simp only [step] at hs; og hs
    rename_i he
    rw [hcb] at he; simp at he
  | seeClosed w =>
    simp only [step] at hs; og hs
    rename_i hw; og hs
    rename_i hpc _
    have := hnl w hw; rw [hpc] at this; simp [Pc.live] at this
  | wgDone w =>
    simp only [step] at hs; og hs
    rename_i hw; og hs
    rename_i hpc
    have := hnl w hw; rw [hpc] at this; simp [Pc.live] at this
  | wgWait w => simp only [step] at hs; og hs; og hs; og hs; cases hs; exact ⟨rfl, rfl, hk, hi.no_panic⟩
  | onceEnter w =>
    simp only [step] at hs; og hs; og hs
    split at hs
    · cases hs; exact ⟨rfl, rfl, hk, hi.no_panic⟩
    · first
      | (cases hs; exact ⟨rfl, rfl, hk, hi.no_panic⟩)
      | (split at hs <;> first | (cases hs; exact ⟨rfl, rfl, hk, hi.no_panic⟩) | simp at hs)
  | shutEnter w => simp only [step] at hs; og hs; og hs; cases hs; exact ⟨rfl, rfl, hk, hi.no_panic⟩
  | shutExit w => simp only [step] at hs; og hs; og hs; og hs; cases hs; exact ⟨rfl, rfl, hk, hi.no_panic⟩
  | closeAll w =>
    -- a holder at hClose would contradict onceDone: there is no holder any more
    simp only [step] at hs; og hs
    rename_i hw; og hs
    rename_i hpc
    have hh : 0 < cnt c.W s.pc Pc.holder := cnt_pos_of c.W s.pc _ w hw (by simp [hpc, Pc.holder])
    have := hi.holders
    rw [hod] at this; simp at this; omega
  | downRecv j => exact absurd rfl (hnotdown j)

/-- `closed` never reverts -/
theorem closed_monotone (c : Cfg) (s s' : St) (a : Act) (hi : Inv c s) (k : Nat) (hk : (s.outs k).closed = true)
    (hs : step c s a = some s') : (s'.outs k).closed = true := by
  by_cases hd : ∃ j, a = .downRecv j
  · obtain ⟨j, rfl⟩ := hd
    simp only [step] at hs
    split at hs
    · cases hs
      by_cases hj : k = j
      · subst hj; simpa using hk
      · simpa [upd_other _ _ _ _ hj] using hk
    · simp at hs
  · exact (after_close_silent c s s' a hi k hk hs (fun j e => hd ⟨j, e⟩)).2.2.1

/-- **assumption (child side)**: as long as the input is not closed the upstream may send and may close — whatever state
the child is in -/
theorem upstream_enabled (c : Cfg) (s : St) (h : s.inpClosed = false) (e : Ev) :
    (step c s (.upSend e)).isSome = true ∧ (step c s .upClose).isSome = true := by
  simp [step, h]

/-- … and nothing the child (or its consumers) does changes whether its input is closed -/
theorem own_actions_keep_input_open (c : Cfg) (s s' : St) (a : Act) (hs : step c s a = some s') (hne : a ≠ .upClose) :
    s'.inpClosed = s.inpClosed := by
  cases a with
  | upSend e => simp only [step] at hs; split at hs <;> simp at hs; subst hs; rfl
  | upClose => exact absurd rfl hne
  | recv w => simp only [step] at hs; og hs; og hs; split at hs <;> (cases hs; rfl)
  | procReturn w => simp only [step] at hs; og hs; og hs; cases hs; simp [resolve]
  | complete i => simp only [step] at hs; og hs; cases hs; simp [resolve]
  | send w =>
    simp only [step] at hs; og hs; og hs
    rename_i k x todo hpc
    cases ht : trySend s k x with
    | none => simp [ht] at hs
    | some s1 => simp [ht] at hs; subst hs; simp [(trySend_drain s s1 k x ht).2.1]
  | finish w => simp only [step] at hs; og hs; og hs; cases hs; rfl
  | cbSend i =>
    simp only [step] at hs; og hs
    rename_i k x todo he
    cases ht : trySend s k x with
    | none => simp [ht] at hs
    | some s1 => simp [ht] at hs; subst hs; simp [(trySend_drain s s1 k x ht).2.1]
  | cbFinish i => simp only [step] at hs; og hs; cases hs; rfl
  | seeClosed w => simp only [step] at hs; og hs; og hs; og hs; cases hs; rfl
  | wgDone w => simp only [step] at hs; og hs; og hs; cases hs; rfl
  | wgWait w => simp only [step] at hs; og hs; og hs; og hs; cases hs; rfl
  | onceEnter w =>
    simp only [step] at hs; og hs; og hs
    split at hs
    · cases hs; rfl
    · first
      | (cases hs; rfl)
      | (split at hs <;> first | (cases hs; rfl) | simp at hs)
  | shutEnter w => simp only [step] at hs; og hs; og hs; cases hs; rfl
  | shutExit w => simp only [step] at hs; og hs; og hs; og hs; cases hs; rfl
  | closeAll w =>
    simp only [step] at hs; og hs; og hs
    split at hs <;> (cases hs; rfl)
  | downRecv k =>
    simp only [step] at hs
    split at hs
    · cases hs; rfl
    · simp at hs

end Firebolt.Exec
