import Firebolt.Model.RefreshConc
/-!
C09 under concurrency: with candidates built and compared under `partitionAssignmentLock` (the code after fix F12), every
interleaving of any number of goroutines calling `RefreshAssignments` / `SetAssignedPartitions`+`RefreshAssignments` ends —
once all calls have returned — with the recovery client reading exactly the owned partitions that have an outstanding
request.  The protocol before the fix does not: `old_protocol_loses_revocation` is the schedule found on the real code.
-/
namespace Firebolt.RefreshConc

/-! ### `sameSet` is what `partitionAssignmentsChanged` tests on duplicate-free key lists -/

theorem subset_of_nodup_length (c : List Part) : ∀ (a : List Part), c.Nodup → c.length = a.length → (∀ p ∈ c, p ∈ a) → ∀ p ∈ a, p ∈ c := by
  induction c with
  | nil => intro a _ hl _ p hp; cases a with
    | nil => exact hp
    | cons x xs => simp at hl
  | cons x c ih =>
    intro a hnd hl hsub p hp
    have hxa : x ∈ a := hsub x (by simp)
    have hnd' := List.nodup_cons.mp hnd
    have hl' : c.length = (a.erase x).length := by
      rw [List.length_erase_of_mem hxa]; simp at hl; omega
    have hsub' : ∀ q ∈ c, q ∈ a.erase x := by
      intro q hq
      have hne : q ≠ x := fun e => hnd'.1 (e ▸ hq)
      exact (List.mem_erase_of_ne hne).mpr (hsub q (by simp [hq]))
    by_cases hpx : p = x
    · simp [hpx]
    · have : p ∈ a.erase x := (List.mem_erase_of_ne hpx).mpr hp
      exact List.mem_cons_of_mem _ (ih (a.erase x) hnd'.2 hl' hsub' p this)

theorem length_le_of_nodup_subset (c : List Part) : ∀ (a : List Part), c.Nodup → (∀ p ∈ c, p ∈ a) → c.length ≤ a.length := by
  induction c with
  | nil => intro a _ _; simp
  | cons x c ih =>
    intro a hnd hsub
    have hxa : x ∈ a := hsub x (by simp)
    have hnd' := List.nodup_cons.mp hnd
    have hsub' : ∀ q ∈ c, q ∈ a.erase x := by
      intro q hq
      have hne : q ≠ x := fun e => hnd'.1 (e ▸ hq)
      exact (List.mem_erase_of_ne hne).mpr (hsub q (by simp [hq]))
    have := ih (a.erase x) hnd'.2 hsub'
    rw [List.length_erase_of_mem hxa] at this
    have hpos : 0 < a.length := List.length_pos_of_mem hxa
    simp; omega

theorem sameSet_iff (c a : List Part) : sameSet c a = true ↔ ∀ p, p ∈ c ↔ p ∈ a := by
  simp only [sameSet, Bool.and_eq_true, List.all_eq_true, List.contains_iff_mem]
  constructor
  · intro h p; exact ⟨h.1 p, h.2 p⟩
  · intro h; exact ⟨fun p hp => (h p).mp hp, fun p hp => (h p).mpr hp⟩

/-- the test the code makes — same number of entries, every candidate active — is set equality for the key lists of two maps -/
theorem code_test_iff (c a : List Part) (hc : c.Nodup) (ha : a.Nodup) :
    (c.length = a.length ∧ ∀ p ∈ c, p ∈ a) ↔ sameSet c a = true := by
  rw [sameSet_iff]
  constructor
  · intro h p; exact ⟨h.2 p, subset_of_nodup_length c a hc h.1 h.2 p⟩
  · intro h
    have h1 := length_le_of_nodup_subset c a hc (fun p hp => (h p).mp hp)
    have h2 := length_le_of_nodup_subset a c ha (fun p hp => (h p).mpr hp)
    exact ⟨by omega, fun p hp => (h p).mp hp⟩

theorem sameSet_refl (c : List Part) : sameSet c c = true := by rw [sameSet_iff]; intro p; exact Iff.rfl

/-! ### the invariant -/

/-- the tracker's current set of partitions with an outstanding request, as a predicate -/
def rq (sh : Sh) : Part → Bool := fun p => sh.reqs.contains p

/-- the candidates a refresh would build now -/
def want (sh : Sh) : List Part := cand (rq sh) sh.owned

/-- what holds while goroutine `t` is inside a call, holding the lock -/
def HeldOk (sh : Sh) (t : Th) : Prop :=
  match t.todo, t.pc with
  | .refresh :: _, .held => sh.active = sh.client
  | .setOwned _ :: _, .held => sh.active = sh.client
  | .refresh :: _, .unassigned c => c = want sh ∨ sh.stale = true
  | .refresh :: _, .installed c => (c = want sh ∨ sh.stale = true) ∧ sh.active = c
  | .refresh :: _, .finishing => sh.active = sh.client ∧ (sameSet (want sh) sh.active = true ∨ sh.stale = true)
  | .setOwned _ :: _, .finishing => sh.active = sh.client
  | _, _ => False

structure Inv (s : Sys) : Prop where
  free : s.sh.holder = none → (∀ j, (s.th j).pc = .start) ∧ s.sh.active = s.sh.client ∧
    (sameSet (want s.sh) s.sh.active = true ∨ (∃ j, Call.refresh ∈ (s.th j).todo) ∨ s.sh.stale = true)
  held : ∀ i, s.sh.holder = some i → (∀ j, j ≠ i → (s.th j).pc = .start) ∧ HeldOk s.sh (s.th i)
  wf : ∀ j, wfCalls (s.th j).todo = true

theorem wfCalls_tail (c : Call) (r : List Call) (h : wfCalls (c :: r) = true) : wfCalls r = true := by
  cases c <;> simp [wfCalls] at h <;> first | exact h | exact h.2

/-- a goroutine that is inside a call holds the lock -/
theorem holder_of_pc (s : Sys) (i : Nat) (hI : Inv s) (hpc : (s.th i).pc ≠ .start) : s.sh.holder = some i := by
  cases hho : s.sh.holder with
  | none => exact absurd ((hI.free hho).1 i) hpc
  | some k =>
    by_cases hk : i = k
    · rw [hk]
    · exact absurd ((hI.held k hho).1 i hk) hpc

theorem heldOk_tracker_change (sh : Sh) (t : Th) (r : List Part) (h : HeldOk sh t) :
    HeldOk { sh with reqs := r, stale := true } t := by
  unfold HeldOk at *
  cases htd : t.todo with
  | nil => simp [htd] at h
  | cons c rest =>
    cases c <;> cases hpc : t.pc <;> simp_all

theorem step_inv (s s' : Sys) (i : Nat) (hI : Inv s) (hs : step s i = some s') : Inv s' := by
  unfold step at hs
  cases htd : (s.th i).todo with
  | nil => simp [htd] at hs
  | cons call rest =>
    simp only [htd] at hs
    have hwf_i := hI.wf i
    rw [htd] at hwf_i
    have hwf_rest := wfCalls_tail call rest hwf_i
    have wf_keep : ∀ (t : Th), t.todo = call :: rest → ∀ j, wfCalls ((upd s.th i t) j).todo = true := by
      intro t ht j
      by_cases hj : j = i
      · subst hj; simp [ht, hwf_i]
      · simp [upd, hj, hI.wf j]
    have wf_drop : ∀ j, wfCalls ((upd s.th i { todo := rest, pc := .start }) j).todo = true := by
      intro j
      by_cases hj : j = i
      · subst hj; simp [hwf_rest]
      · simp [upd, hj, hI.wf j]
    cases hpc : (s.th i).pc with
    | start =>
      simp only [hpc] at hs
      cases call with
      | setReq r =>
        simp only at hs; cases hs
        refine ⟨?_, ?_, wf_drop⟩
        · intro hfree
          obtain ⟨hst, hac, _⟩ := hI.free hfree
          refine ⟨?_, hac, Or.inr (Or.inr rfl)⟩
          intro j; by_cases hj : j = i
          · subst hj; simp
          · simp [upd, hj, hst j]
        · intro k hk
          obtain ⟨hoth, hok⟩ := hI.held k hk
          have hki : k ≠ i := by
            intro e; subst e
            unfold HeldOk at hok
            simp [htd, hpc] at hok
          refine ⟨?_, ?_⟩
          · intro j hj; by_cases hji : j = i
            · subst hji; simp
            · simp [upd, hji, hoth j hj]
          · simp only [upd, hki, if_false]
            exact heldOk_tracker_change s.sh (s.th k) r hok
      | refresh =>
        simp only at hs
        split at hs
        · rename_i hfree
          cases hs
          obtain ⟨hst, hac, _⟩ := hI.free hfree
          refine ⟨by intro h; simp at h, ?_, wf_keep _ (by simp)⟩
          intro k hk
          simp at hk; subst hk
          refine ⟨fun j hj => by simp [upd, hj, hst j], ?_⟩
          simp [HeldOk, hac]
        · simp at hs
      | setOwned o =>
        simp only at hs
        split at hs
        · rename_i hfree
          cases hs
          obtain ⟨hst, hac, _⟩ := hI.free hfree
          refine ⟨by intro h; simp at h, ?_, wf_keep _ (by simp)⟩
          intro k hk
          simp at hk; subst hk
          refine ⟨fun j hj => by simp [upd, hj, hst j], ?_⟩
          simp [HeldOk, hac]
        · simp at hs
    | held =>
      have hh := holder_of_pc s i hI (by rw [hpc]; simp)
      obtain ⟨hoth, hok⟩ := hI.held i hh
      simp only [hpc] at hs
      cases call with
      | setReq r => simp at hs
      | setOwned o =>
        simp only [HeldOk, htd, hpc] at hok
        simp only at hs; cases hs
        refine ⟨by intro h; simp [hh] at h, ?_, wf_keep _ (by simp)⟩
        intro k hk
        simp [hh] at hk; subst hk
        refine ⟨fun j hj => by simp [upd, hj, hoth j hj], ?_⟩
        simp [HeldOk, hok]
      | refresh =>
        simp only [HeldOk, htd, hpc] at hok
        simp only at hs
        split at hs
        · rename_i hsame
          cases hs
          refine ⟨by intro h; simp [hh] at h, ?_, wf_keep _ (by simp)⟩
          intro k hk
          simp [hh] at hk; subst hk
          refine ⟨fun j hj => by simp [upd, hj, hoth j hj], ?_⟩
          simp only [HeldOk, upd_same]
          exact ⟨hok, Or.inl hsame⟩
        · cases hs
          refine ⟨by intro h; simp [hh] at h, ?_, wf_keep _ (by simp)⟩
          intro k hk
          simp [hh] at hk; subst hk
          refine ⟨fun j hj => by simp [upd, hj, hoth j hj], ?_⟩
          simp only [HeldOk, upd_same]
          exact Or.inl rfl
    | unassigned c =>
      have hh := holder_of_pc s i hI (by rw [hpc]; simp)
      obtain ⟨hoth, hok⟩ := hI.held i hh
      simp only [hpc] at hs
      cases hs
      cases call with
      | setOwned o => simp [HeldOk, htd, hpc] at hok
      | setReq r => simp [HeldOk, htd, hpc] at hok
      | refresh =>
        simp only [HeldOk, htd, hpc] at hok
        refine ⟨by intro h; simp [hh] at h, ?_, wf_keep _ (by simp)⟩
        intro k hk
        simp [hh] at hk; subst hk
        refine ⟨fun j hj => by simp [upd, hj, hoth j hj], ?_⟩
        simp only [HeldOk, upd_same]
        exact ⟨hok, trivial⟩
    | installed c =>
      have hh := holder_of_pc s i hI (by rw [hpc]; simp)
      obtain ⟨hoth, hok⟩ := hI.held i hh
      simp only [hpc] at hs
      cases hs
      cases call with
      | setOwned o => simp [HeldOk, htd, hpc] at hok
      | setReq r => simp [HeldOk, htd, hpc] at hok
      | refresh =>
        simp only [HeldOk, htd, hpc] at hok
        refine ⟨by intro h; simp [hh] at h, ?_, wf_keep _ (by simp)⟩
        intro k hk
        simp [hh] at hk; subst hk
        refine ⟨fun j hj => by simp [upd, hj, hoth j hj], ?_⟩
        simp only [HeldOk, upd_same]
        refine ⟨hok.2, ?_⟩
        rcases hok.1 with h1 | h1
        · left
          have hw : want { s.sh with client := c } = want s.sh := rfl
          rw [hw, ← h1, hok.2]; exact sameSet_refl c
        · exact Or.inr h1
    | finishing =>
      have hh := holder_of_pc s i hI (by rw [hpc]; simp)
      obtain ⟨hoth, hok⟩ := hI.held i hh
      simp only [hpc] at hs
      cases hs
      refine ⟨?_, by intro k hk; simp at hk, wf_drop⟩
      intro _
      refine ⟨?_, ?_⟩
      · intro j; by_cases hj : j = i
        · subst hj; simp
        · simp [upd, hj, hoth j hj]
      · cases call with
        | refresh =>
          simp only [HeldOk, htd, hpc] at hok
          refine ⟨hok.1, ?_⟩
          rcases hok.2 with h1 | h1
          · exact Or.inl h1
          · exact Or.inr (Or.inr h1)
        | setOwned o =>
          simp only [HeldOk, htd, hpc] at hok
          refine ⟨hok, Or.inr (Or.inl ⟨i, ?_⟩)⟩
          simp only [wfCalls, Bool.and_eq_true, List.contains_iff_mem] at hwf_i
          simpa using hwf_i.1
        | setReq r => simp [HeldOk, htd, hpc] at hok
    | decided c =>
      simp only [hpc] at hs; cases call <;> simp at hs
    | locked c =>
      simp only [hpc] at hs; cases call <;> simp at hs

theorem run_inv (sched : List Nat) : ∀ (s : Sys), Inv s → Inv (run step s sched) := by
  induction sched with
  | nil => intro s h; exact h
  | cons i r ih =>
    intro s h
    simp only [run]
    cases hs : step s i with
    | none => simpa using ih s h
    | some s' => simpa using ih s' (step_inv s s' i h hs)

/-- once every call has returned: nobody holds the lock, the client is assigned exactly the active set, and — unless the
tracker changed after the last refresh built its candidates — that is the set of owned partitions with an outstanding request -/
theorem quiescent (s : Sys) (hI : Inv s) (hq : ∀ j, (s.th j).todo = []) :
    s.sh.holder = none ∧ s.sh.client = s.sh.active ∧ (s.sh.stale = false → sameSet (want s.sh) s.sh.client = true) := by
  have hfree : s.sh.holder = none := by
    cases hh : s.sh.holder with
    | none => rfl
    | some i =>
      have := (hI.held i hh).2
      simp [HeldOk, hq i] at this
  obtain ⟨_, hac, hor⟩ := hI.free hfree
  refine ⟨hfree, hac.symm, ?_⟩
  intro hst
  rcases hor with h | h | h
  · rw [← hac]; exact h
  · obtain ⟨j, hj⟩ := h; simp [hq j] at hj
  · rw [hst] at h; cases h

/-- **C09, every interleaving.** Goroutines run any lists of `refresh`, `setOwned …; refresh` (assignment, revocation) and
`setReq` (request filed or received, completion recorded) calls, in any schedule of their individual steps.  When all calls
have returned and the tracker did not change after the last refresh built its candidates ("once its periodic refresh has
run"), the recovery client is assigned exactly the owned partitions that have an outstanding request. -/
theorem refresh_serialised (s0 : Sys) (h0 : Inv s0) (sched : List Nat)
    (hq : ∀ j, ((run step s0 sched).th j).todo = []) (hst : (run step s0 sched).sh.stale = false) :
    let s := run step s0 sched
    s.sh.client = s.sh.active ∧ ∀ p, p ∈ s.sh.client ↔ (p ∈ s.sh.owned ∧ p ∈ s.sh.reqs) := by
  intro s
  obtain ⟨_, hca, hss⟩ := quiescent s (run_inv sched s0 h0) hq
  refine ⟨hca, fun p => ?_⟩
  have := (sameSet_iff _ _).mp (hss hst) p
  simp only [want, cand, rq, List.mem_filter, List.contains_iff_mem] at this
  exact this.symm

/-- a revocation that has returned leaves nothing assigned, whatever else was going on -/
theorem revoked_reads_nothing (s0 : Sys) (h0 : Inv s0) (sched : List Nat)
    (hq : ∀ j, ((run step s0 sched).th j).todo = []) (hst : (run step s0 sched).sh.stale = false)
    (hrev : (run step s0 sched).sh.owned = []) :
    (run step s0 sched).sh.client = [] := by
  have h := (refresh_serialised s0 h0 sched hq hst).2
  rw [hrev] at h
  cases hc : (run step s0 sched).sh.client with
  | nil => rfl
  | cons x xs => have := (h x).mp (by rw [hc]; simp); simp at this

/-- no deadlock: while some call is left, some goroutine can move (the lock holder always can) -/
theorem progress (s : Sys) (hI : Inv s) (j : Nat) (hj : (s.th j).todo ≠ []) :
    ∃ i, (step s i).isSome = true := by
  cases hh : s.sh.holder with
  | none =>
    refine ⟨j, ?_⟩
    have hst := (hI.free hh).1 j
    cases htd : (s.th j).todo with
    | nil => exact absurd htd hj
    | cons c r => cases c <;> simp [step, htd, hst, hh]
  | some i =>
    refine ⟨i, ?_⟩
    have hok := (hI.held i hh).2
    cases htd : (s.th i).todo with
    | nil => simp [HeldOk, htd] at hok
    | cons c r =>
      cases hpc : (s.th i).pc with
      | start => cases c <;> simp [HeldOk, htd, hpc] at hok
      | held =>
        cases c with
        | refresh => simp only [step, htd, hpc]; split <;> simp
        | setOwned o => simp [step, htd, hpc]
        | setReq r' => simp [HeldOk, htd, hpc] at hok
      | decided c' => cases c <;> simp [HeldOk, htd, hpc] at hok
      | locked c' => cases c <;> simp [HeldOk, htd, hpc] at hok
      | unassigned c' => simp [step, htd, hpc]
      | installed c' => simp [step, htd, hpc]
      | finishing => simp [step, htd, hpc]

/-! ### a concrete system: the ticker's refresh and a revocation -/

/-- partition 0 is owned and has a request, nothing is under recovery yet; goroutine 0 is the ticker's refresh, goroutine 1
the revocation (`SetAssignedPartitions([])` + `RefreshAssignments()`) -/
def demo : Sys :=
  { sh := { owned := [0], reqs := [0] },
    th := fun j => if j = 0 then { todo := [.refresh] } else if j = 1 then { todo := [.setOwned [], .refresh] } else {} }

def demoReq : Part → Bool := fun _ => true

theorem demo_inv : Inv demo := by
  refine ⟨?_, ?_, ?_⟩
  · intro _
    refine ⟨?_, rfl, Or.inr (Or.inl ⟨0, by simp [demo]⟩)⟩
    intro j; simp only [demo]
    by_cases h0 : j = 0
    · simp [h0]
    · by_cases h1 : j = 1 <;> simp [h0, h1]
  · intro i h; simp [demo] at h
  · intro j; simp only [demo]
    by_cases h0 : j = 0
    · simp [h0, wfCalls]
    · by_cases h1 : j = 1 <;> simp [h0, h1, wfCalls]

/-- the interleaving observed on the real code (replay `cfg 1000 1000 ; own 0 ; req 0 10 20 ; refresh& ; revoke ; poll 0`):
the ticker's refresh has decided and is in its round trip when the revocation comes -/
def badSchedule : List Nat := [0, 0, 0, 1, 1, 0, 0, 0, 0]

/-- **the protocol before fix F12 loses the revocation**: all calls have returned, nothing is owned, and the recovery client
is still assigned partition 0 -/
theorem old_protocol_loses_revocation :
    let s := run (stepOld demoReq) demo badSchedule
    (s.th 0).todo = [] ∧ (s.th 1).todo = [] ∧ s.sh.holder = none ∧ s.sh.owned = [] ∧ s.sh.client = [0] := by
  decide

/-- the same schedule (and any other) under the current protocol: the revocation waits for the lock and then unassigns -/
example : (run step demo [0, 0, 0, 1, 1, 0, 0, 0, 0, 1, 1, 1, 1, 1, 1, 1, 1, 1]).sh.client = [] := by decide

/-- a request arriving while the ticker's refresh is in flight is picked up by the next refresh -/
example :
    let s := run step { demo with th := fun j => if j = 0 then { todo := [.refresh, .refresh] } else if j = 1 then { todo := [.setReq [0, 1], .setOwned [0, 1], .refresh] } else {} }
      [0, 0, 1, 0, 0, 0, 1, 1, 1, 1, 1, 1, 1, 0, 0, 0, 0, 0, 0]
    s.sh.stale = false ∧ s.sh.client = [0, 1] := by
  decide

theorem step_other (s s' : Sys) (i j : Nat) (hs : step s i = some s') (hj : j ≠ i) : s'.th j = s.th j := by
  unfold step at hs
  cases htd : (s.th i).todo with
  | nil => simp [htd] at hs
  | cons call rest =>
    simp only [htd] at hs
    cases hpc : (s.th i).pc <;> simp only [hpc] at hs <;> cases call <;> (try simp only at hs) <;> (try split at hs) <;>
      cases hs <;> simp [upd, hj]

theorem run_other (j : Nat) (sched : List Nat) : ∀ (s : Sys), j ∉ sched → (run step s sched).th j = s.th j := by
  induction sched with
  | nil => intro s _; rfl
  | cons i r ih =>
    intro s hj
    simp only [List.mem_cons, not_or] at hj
    simp only [run]
    cases hs : step s i with
    | none => simpa using ih s hj.2
    | some s' => simp only [Option.getD_some]; rw [ih s' hj.2]; exact step_other s s' i j hs hj.1

example : ∀ j, ((run step demo [0, 0, 0, 1, 1, 0, 0, 0, 0, 1, 1, 1, 1, 1, 1, 1, 1, 1]).th j).todo = [] := by
  intro j
  by_cases h0 : j = 0
  · subst h0; decide
  · by_cases h1 : j = 1
    · subst h1; decide
    · rw [run_other j _ demo (by simp [h0, h1])]
      simp [demo, h0, h1]

end Firebolt.RefreshConc
