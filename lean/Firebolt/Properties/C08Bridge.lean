import Firebolt.Properties.C08
import Firebolt.Spec.Tracker
/-!
Bridge for C08: the model's own observation satisfies the executable Spec that judges the real tracker, for **every**
in-scope operation sequence.  Together with the correspondence check (implementation observation = model observation on
the generated histories) this closes the triangle: wherever code and model agree, the Spec verdict on the code is the one
proved here for the model.
-/
namespace Firebolt.C08
open Firebolt Firebolt.Tracker

/-- the model store in the observer's vocabulary, in store order -/
def pm (s : Store) : PMap := s.map (fun kv => (kv.1, snapP kv.2))

def keysNodup (s : Store) : Prop := (s.map (·.1)).Nodup
def storeWf (s : Store) : Prop := ∀ kv ∈ s, ∀ r ∈ kv.2, Req.wf r

theorem lookupP_pm (s : Store) (p : Int) : lookupP (pm s) p = (s.get? p).map snapP := by
  induction s with
  | nil => rfl
  | cons kv rest ih =>
    obtain ⟨k, v⟩ := kv
    by_cases h : k = p
    · simp [lookupP, pm, AList.get?, h, List.find?]
    · simp only [lookupP, pm, List.map_cons, AList.get?, h, if_false] at ih ⊢
      rw [List.find?_cons_of_neg (by simpa using h)]
      exact ih

theorem setP_pm (s : Store) (p : Int) (l : Snap) (hk : keysNodup s) : setP (pm s) p (snapP l) = pm (s.set p l) := by
  induction s with
  | nil => simp [setP, pm, AList.set]
  | cons kv rest ih =>
    obtain ⟨k, v⟩ := kv
    have hk' : k ∉ rest.map (·.1) ∧ (rest.map (·.1)).Nodup := by
      unfold keysNodup at hk; rw [List.map_cons] at hk; exact List.nodup_cons.mp hk
    have ihr := ih hk'.2
    by_cases h : k = p
    · subst h
      have hnot : ∀ kv' ∈ rest, ¬ kv'.1 = k := fun kv' hm e => hk'.1 (by rw [← e]; exact List.mem_map.2 ⟨kv', hm, rfl⟩)
      have hmap : (pm rest).map (fun kv => if kv.1 = k then (k, snapP l) else kv) = pm rest := by
        simp only [pm, List.map_map]
        apply List.map_congr_left
        intro kv' hm
        simp [hnot kv' hm]
      simp only [setP, pm, List.map_cons, List.any_cons, decide_true, Bool.true_or, if_true, AList.set]
      simp only [pm] at hmap
      rw [hmap]
    · have hany : (pm ((k, v) :: rest)).any (fun kv => decide (kv.1 = p)) = (pm rest).any (fun kv => decide (kv.1 = p)) := by
        simp [pm, h]
      simp only [setP] at ihr ⊢
      rw [hany]
      by_cases ha : (pm rest).any (fun kv => decide (kv.1 = p)) = true
      · simp only [ha, if_true] at ihr ⊢
        simp only [pm, List.map_cons, AList.set, h, if_false] at ihr ⊢
        rw [← ihr]
      · simp only [ha] at ihr ⊢
        simp only [pm, List.map_cons, AList.set, h, if_false, List.cons_append, Bool.false_eq_true] at ihr ⊢
        rw [← ihr]

theorem keys_set (s : Store) (p : Int) (l : Snap) : ∀ q, q ∈ (s.set p l).map (·.1) ↔ (q = p ∨ q ∈ s.map (·.1)) := by
  induction s with
  | nil => intro q; simp [AList.set]
  | cons kv rest ih =>
    obtain ⟨k, v⟩ := kv
    intro q
    by_cases h : k = p
    · subst h; simp [AList.set]
    · simp only [AList.set, h, if_false, List.map_cons, List.mem_cons, ih q]
      constructor
      · rintro (h1 | h1 | h1) <;> simp [h1]
      · rintro (h1 | h1 | h1) <;> simp [h1]

theorem keysNodup_set (s : Store) (p : Int) (l : Snap) (hk : keysNodup s) : keysNodup (s.set p l) := by
  induction s with
  | nil => simp [keysNodup, AList.set]
  | cons kv rest ih =>
    obtain ⟨k, v⟩ := kv
    have hk' : k ∉ rest.map (·.1) ∧ (rest.map (·.1)).Nodup := by
      unfold keysNodup at hk; rw [List.map_cons] at hk; exact List.nodup_cons.mp hk
    by_cases h : k = p
    · subst h; simpa [keysNodup, AList.set] using hk
    · simp only [keysNodup, AList.set, h, if_false, List.map_cons, List.nodup_cons]
      refine ⟨?_, ih hk'.2⟩
      intro hm
      rcases (keys_set rest p l k).1 hm with h1 | h1
      · exact h h1
      · exact hk'.1 h1

theorem mem_set (s : Store) (p : Int) (l : Snap) : ∀ kv ∈ s.set p l, kv = (p, l) ∨ kv ∈ s := by
  induction s with
  | nil => intro kv h; simp [AList.set] at h; exact Or.inl h
  | cons kv0 rest ih =>
    obtain ⟨k, v⟩ := kv0
    intro kv hm
    by_cases h : k = p
    · simp only [AList.set, h, if_true, List.mem_cons] at hm
      rcases hm with h1 | h1
      · exact Or.inl h1
      · exact Or.inr (List.mem_cons_of_mem _ h1)
    · simp only [AList.set, h, if_false, List.mem_cons] at hm
      rcases hm with h1 | h1
      · exact Or.inr (by simp [h1])
      · rcases ih kv h1 with h2 | h2
        · exact Or.inl h2
        · exact Or.inr (List.mem_cons_of_mem _ h2)

theorem storeWf_set (s : Store) (p : Int) (l : Snap) (hw : storeWf s) (hl : ∀ r ∈ l, Req.wf r) : storeWf (s.set p l) := by
  intro kv hm r hr
  rcases mem_set s p l kv hm with h | h
  · subst h; exact hl r hr
  · exact hw kv h r hr

theorem get?_mem (s : Store) (p : Int) (l : Snap) (h : s.get? p = some l) : (p, l) ∈ s := by
  induction s with
  | nil => simp [AList.get?] at h
  | cons kv rest ih =>
    obtain ⟨k, v⟩ := kv
    by_cases hk : k = p
    · simp [AList.get?, hk] at h; subst h; subst hk; simp
    · simp [AList.get?, hk] at h; exact List.mem_cons_of_mem _ (ih h)

theorem get?_isSome_of_mem (s : Store) (kv0 : Int × Snap) (h : kv0 ∈ s) : (s.get? kv0.1).isSome = true := by
  induction s with
  | nil => simp at h
  | cons kv rest ih =>
    obtain ⟨k, v⟩ := kv
    by_cases hk : k = kv0.1
    · simp [AList.get?, hk]
    · simp only [AList.get?, hk, if_false]
      rcases List.mem_cons.1 h with h1 | h1
      · exact absurd (by rw [h1]) hk
      · exact ih h1

theorem get?_wf (s : Store) (p : Int) (hw : storeWf s) : ∀ r ∈ (s.get? p).getD [], Req.wf r := by
  intro r hr
  cases h : s.get? p with
  | none => simp [h] at hr
  | some l => simp [h] at hr; exact hw (p, l) (get?_mem s p l h) r hr

/-! ### coverage, as the Spec tests it -/

theorem coveredP_iff (l : Snap) (o : Int) : coveredP (snapP l) o = true ↔ covered l o := by
  simp only [coveredP, snapP, List.any_map, List.any_eq_true, covered, Req.covers, Function.comp]
  constructor
  · rintro ⟨r, hr, h⟩; simp at h; exact ⟨r, hr, h⟩
  · rintro ⟨r, hr, h⟩; exact ⟨r, hr, by simp [h]⟩

theorem addCoverageOk_model (l : Snap) (f t : Int) (hwf : ∀ r ∈ l, Req.wf r) (hft : f ≤ t) :
    addCoverageOk (snapP l) (snapP (addL l f t)) f t = true := by
  simp only [addCoverageOk, List.all_eq_true]
  intro o _
  have h := add_covered l f t hwf hft o
  rw [← coveredP_iff, ← coveredP_iff] at h
  by_cases h1 : coveredP (snapP (addL l f t)) o = true
  · rcases h.1 h1 with h2 | h2
    · simp [h1, h2]
    · simp [h1, h2]
  · have h3 : ¬ coveredP (snapP l) o = true := fun e => h1 (h.2 (Or.inl e))
    have h4 : ¬ (f ≤ o ∧ o < t) := fun e => h1 (h.2 (Or.inr e))
    simp only [Bool.not_eq_true] at h1 h3
    simp only [h1, h3, Bool.false_or, beq_iff_eq]
    by_cases h5 : f ≤ o
    · have : ¬ o < t := fun e => h4 ⟨h5, e⟩
      simp [this]
    · simp [h5]

/-! ### `sortByKey` does not change what a lookup finds -/

theorem find_ins_ne {α} (kv : Int × α) (p : Int) (h : kv.1 ≠ p) (acc : List (Int × α)) :
    (sortByKey.ins kv acc).find? (fun x => decide (x.1 = p)) = acc.find? (fun x => decide (x.1 = p)) := by
  induction acc with
  | nil => simp [sortByKey.ins, h]
  | cons y ys ih =>
    by_cases hle : kv.1 ≤ y.1
    · simp [sortByKey.ins, hle, h]
    · simp only [sortByKey.ins, hle, if_false]
      by_cases hy : y.1 = p
      · simp [hy]
      · rw [List.find?_cons_of_neg (by simpa using hy), List.find?_cons_of_neg (by simpa using hy)]; exact ih

theorem find_ins_eq {α} (kv : Int × α) (p : Int) (h : kv.1 = p) (acc : List (Int × α)) (hn : ∀ y ∈ acc, y.1 ≠ p) :
    (sortByKey.ins kv acc).find? (fun x => decide (x.1 = p)) = some kv := by
  induction acc with
  | nil => simp [sortByKey.ins, h]
  | cons y ys ih =>
    by_cases hle : kv.1 ≤ y.1
    · simp only [sortByKey.ins, hle, if_true]; simp [h]
    · simp only [sortByKey.ins, hle, if_false]
      have hy : y.1 ≠ p := hn y (by simp)
      rw [List.find?_cons_of_neg (by simpa using hy)]
      exact ih (fun z hz => hn z (List.mem_cons_of_mem _ hz))

theorem mem_ins {α} (kv : Int × α) (acc : List (Int × α)) (y : Int × α) : y ∈ sortByKey.ins kv acc ↔ (y = kv ∨ y ∈ acc) := by
  induction acc with
  | nil => simp [sortByKey.ins]
  | cons z zs ih =>
    by_cases hle : kv.1 ≤ z.1
    · simp [sortByKey.ins, hle]
    · simp only [sortByKey.ins, hle, if_false, List.mem_cons, ih]
      constructor
      · rintro (h | h | h) <;> simp [h]
      · rintro (h | h | h) <;> simp [h]

theorem mem_sortByKey {α} (m : List (Int × α)) (y : Int × α) : y ∈ sortByKey m ↔ y ∈ m := by
  induction m with
  | nil => simp [sortByKey]
  | cons kv rest ih =>
    have : sortByKey (kv :: rest) = sortByKey.ins kv (sortByKey rest) := rfl
    rw [this, mem_ins, ih]; simp

theorem lookupP_sortByKey (m : PMap) (p : Int) (hk : (m.map (·.1)).Nodup) : lookupP (sortByKey m) p = lookupP m p := by
  induction m with
  | nil => rfl
  | cons kv rest ih =>
    have hk' : kv.1 ∉ rest.map (·.1) ∧ (rest.map (·.1)).Nodup := by
      rw [List.map_cons] at hk; exact List.nodup_cons.mp hk
    have hs : sortByKey (kv :: rest) = sortByKey.ins kv (sortByKey rest) := rfl
    have ihr := ih hk'.2
    simp only [lookupP] at ihr ⊢
    rw [hs]
    by_cases h : kv.1 = p
    · rw [find_ins_eq kv p h]
      · simp [h]
      · intro y hy e
        have hy' := (mem_sortByKey rest y).1 hy
        exact hk'.1 (by rw [h, ← e]; exact List.mem_map.2 ⟨y, hy', rfl⟩)
    · rw [find_ins_ne kv p h, List.find?_cons_of_neg (by simpa using h)]
      exact ihr

/-! ### one step of the Spec on the model's own output -/

structure Rel (g : Ghost) (s : Store) (D : List Int) : Prop where
  cur : g.cur = pm s
  nodup : keysNodup s
  wf : storeWf s
  own : ∀ p ∈ g.own, p ∉ D

theorem sortByKey_single {α} (x : Int × α) : sortByKey [x] = [x] := rfl

theorem map_getD_snapP (o : Option Snap) : (o.map snapP).getD [] = snapP (o.getD []) := by
  cases o <;> rfl

theorem own_after_bcast (g : Ghost) (D : List Int) (p : Int) (bs : List Bcast) (hown : ∀ q ∈ g.own, q ∉ D)
    (hp : (lastOf p bs).isSome = true) :
    ∀ q ∈ p :: g.own.filter (· ≠ p), q ∉ D.filter (fun j => (lastOf j bs).isNone) := by
  intro q hq hm
  have hm' := List.mem_filter.1 hm
  simp only [List.mem_cons, List.mem_filter] at hq
  rcases hq with h | h
  · subst h
    cases hx : lastOf q bs with
    | none => simp [hx] at hp
    | some w => simp [hx] at hm'
  · exact hown q h.1 hm'.1

theorem lastOf_single (p : Int) (l : Snap) : lastOf p [(p, l)] = some l := by simp [lastOf]

theorem step_sim (g : Ghost) (s : Store) (D : List Int) (op : Op) (hR : Rel g s D)
    (hs : opInScope op = true) (hu : updWellFormed op = true) :
    ∃ g', specStep g op (outObs (step s op).2) = .ok g' ∧ Rel g' (step s op).1 (stepDirty s D op) := by
  have hcur := hR.cur
  cases op with
  | add p f t =>
    have hft : f ≤ t := by simpa [opInScope] using hs
    have hwfl := get?_wf s p hR.wf
    have hcov := addCoverageOk_model ((s.get? p).getD []) f t hwfl hft
    refine ⟨{ cur := setP g.cur p (snapP (addL ((s.get? p).getD []) f t)), own := p :: g.own.filter (· ≠ p) }, ?_, ?_⟩
    · simp only [step, add, outObs, List.map_cons, List.map_nil, sortByKey_single, specStep, hcur, lookupP_pm, map_getD_snapP,
        hcov, Bool.not_true, Bool.false_eq_true, if_false, ne_eq, not_true_eq_false]
    · refine ⟨?_, ?_, ?_, ?_⟩
      · simp only [step, add, hcur]; exact setP_pm s p _ hR.nodup
      · simp only [step, add]; exact keysNodup_set s p _ hR.nodup
      · simp only [step, add]; exact storeWf_set s p _ hR.wf (add_wf _ f t hwfl hft)
      · simp only [stepDirty, step, add, bcastsOf]
        exact own_after_bcast g D p _ hR.own (by simp [lastOf_single])
  | upd p f t =>
    have hft : f ≤ t := by simpa [updWellFormed] using hu
    cases hget : s.get? p with
    | none =>
      refine ⟨g, ?_, ?_⟩
      · simp [step, update, hget, outObs, specStep, hcur, lookupP_pm, sortByKey]
      · refine ⟨by simpa [step, update, hget] using hcur, by simpa [step, update, hget] using hR.nodup,
          by simpa [step, update, hget] using hR.wf, ?_⟩
        intro q hq hm
        simp only [stepDirty, step, update, hget, bcastsOf] at hm
        exact hR.own q hq (List.mem_filter.1 hm).1
    | some l =>
      cases l with
      | nil =>
        refine ⟨g, ?_, ?_⟩
        · simp [step, update, hget, outObs, specStep, hcur, lookupP_pm, sortByKey, snapP]
        · refine ⟨by simpa [step, update, hget] using hcur, by simpa [step, update, hget] using hR.nodup,
            by simpa [step, update, hget] using hR.wf, ?_⟩
          intro q hq hm
          simp only [stepDirty, step, update, hget, bcastsOf] at hm
          exact hR.own q hq (List.mem_filter.1 hm).1
      | cons r rest =>
        by_cases ht : r.toO = t
        · refine ⟨{ cur := setP g.cur p ((f, t) :: snapP rest), own := p :: g.own.filter (· ≠ p) }, ?_, ?_⟩
          · simp [step, update, hget, ht, outObs, specStep, hcur, lookupP_pm, sortByKey_single, snapP]
          · have hsn : ((f, t) :: snapP rest) = snapP ({ r with fromO := f } :: rest) := by simp [snapP, ht]
            refine ⟨?_, ?_, ?_, ?_⟩
            · simp only [step, update, hget, ht, if_true, hcur, hsn]; exact setP_pm s p _ hR.nodup
            · simp only [step, update, hget, ht, if_true]; exact keysNodup_set s p _ hR.nodup
            · simp only [step, update, hget, ht, if_true]
              refine storeWf_set s p _ hR.wf ?_
              intro q hq
              simp only [List.mem_cons] at hq
              rcases hq with h | h
              · subst h; simp [Req.wf, ht, hft]
              · exact hR.wf (p, r :: rest) (get?_mem s p _ hget) q (List.mem_cons_of_mem _ h)
            · simp only [stepDirty, step, update, hget, ht, if_true, bcastsOf]
              exact own_after_bcast g D p _ hR.own (by simp [lastOf_single])
        · refine ⟨g, ?_, ?_⟩
          · simp [step, update, hget, ht, outObs, specStep, hcur, lookupP_pm, sortByKey, snapP]
          · refine ⟨by simpa [step, update, hget, ht] using hcur, by simpa [step, update, hget, ht] using hR.nodup,
              by simpa [step, update, hget, ht] using hR.wf, ?_⟩
            intro q hq hm
            simp only [stepDirty, step, update, hget, ht, if_false, bcastsOf] at hm
            exact hR.own q hq (List.mem_filter.1 hm).1
  | done p t =>
    cases hget : s.get? p with
    | none =>
      refine ⟨g, ?_, ?_⟩
      · simp [step, complete, hget, outObs, specStep, hcur, lookupP_pm, sortByKey]
      · refine ⟨by simpa [step, complete, hget] using hcur, by simpa [step, complete, hget] using hR.nodup,
          by simpa [step, complete, hget] using hR.wf, ?_⟩
        intro q hq hm
        simp only [stepDirty, step, complete, hget, bcastsOf] at hm
        exact hR.own q hq (List.mem_filter.1 hm).1
    | some l =>
      have hany : (snapP l).any (fun r => decide (r.2 = t)) = l.any (fun r => decide (r.toO = t)) := by
        simp [snapP, List.any_map, Function.comp_def]
      have hfil : (snapP l).filter (fun r => decide (r.2 ≠ t)) = snapP (l.filter (fun r => decide (r.toO ≠ t))) := by
        simp [snapP, List.filter_map, Function.comp_def]
      by_cases ha : l.any (fun r => decide (r.toO = t)) = true
      · refine ⟨{ cur := setP g.cur p (snapP (l.filter (fun r => decide (r.toO ≠ t)))), own := p :: g.own.filter (· ≠ p) }, ?_, ?_⟩
        · simp only [step, complete, hget, ha, if_true, outObs, List.map_cons, List.map_nil, sortByKey_single, specStep, hcur,
            lookupP_pm, Option.map_some, hany, hfil, Bool.not_true, Bool.false_eq_true, if_false, ne_eq, not_true_eq_false]
        · refine ⟨?_, ?_, ?_, ?_⟩
          · simp only [step, complete, hget, ha, if_true, hcur]; exact setP_pm s p _ hR.nodup
          · simp only [step, complete, hget, ha, if_true]; exact keysNodup_set s p _ hR.nodup
          · simp only [step, complete, hget, ha, if_true]
            refine storeWf_set s p _ hR.wf ?_
            intro q hq
            exact hR.wf (p, l) (get?_mem s p _ hget) q (List.mem_filter.1 hq).1
          · simp only [stepDirty, step, complete, hget, ha, if_true, bcastsOf]
            exact own_after_bcast g D p _ hR.own (by simp [lastOf_single])
      · refine ⟨g, ?_, ?_⟩
        · simp only [Bool.not_eq_true] at ha
          simp [step, complete, hget, ha, outObs, specStep, hcur, lookupP_pm, hany, sortByKey]
        · simp only [Bool.not_eq_true] at ha
          refine ⟨by simpa [step, complete, hget, ha] using hcur, by simpa [step, complete, hget, ha] using hR.nodup,
            by simpa [step, complete, hget, ha] using hR.wf, ?_⟩
          intro q hq hm
          simp only [stepDirty, step, complete, hget, ha, bcastsOf] at hm
          exact hR.own q hq (List.mem_filter.1 hm).1
  | cancel =>
    have hm1 : (s.map (fun kv => (kv.1, ([] : Snap)))).map (fun b => (b.1, snapP b.2)) = s.map (fun kv => (kv.1, ([] : PSnap))) := by
      simp [List.map_map, Function.comp_def, snapP]
    have hm2 : (pm s).map (fun kv => (kv.1, ([] : PSnap))) = s.map (fun kv => (kv.1, ([] : PSnap))) := by
      simp [pm, List.map_map, Function.comp_def]
    refine ⟨{ cur := g.cur.map (fun kv => (kv.1, [])), own := g.cur.map (·.1) }, ?_, ?_⟩
    · simp only [step, cancelAll, outObs, hm1, specStep, hcur, hm2, Bool.not_true, Bool.false_eq_true, if_false, ne_eq,
        not_true_eq_false]
    · refine ⟨?_, ?_, ?_, ?_⟩
      · simp only [step, cancelAll, hcur, hm2]; simp [pm, List.map_map, Function.comp_def, snapP]
      · simp only [step, cancelAll, keysNodup, List.map_map, Function.comp_def]; exact hR.nodup
      · simp only [step, cancelAll]
        intro kv hkv r hr
        obtain ⟨kv0, _, rfl⟩ := List.mem_map.1 hkv
        simp at hr
      · intro q hq hm
        simp only [hcur, pm, List.map_map, Function.comp_def, List.mem_map] at hq
        obtain ⟨kv0, hkv0, rfl⟩ := hq
        simp only [stepDirty, step, cancelAll, bcastsOf] at hm
        have h2 := (List.mem_filter.1 hm).2
        have h3 := lastOf_cancel_isSome s kv0.1
        have h4 : (s.get? kv0.1).isSome = true := get?_isSome_of_mem s kv0 hkv0
        rw [h4] at h3
        cases hx : lastOf kv0.1 (List.map (fun kv => (kv.1, ([] : Snap))) s) with
        | none => simp [hx] at h3
        | some w => simp [hx] at h2
  | get p =>
    refine ⟨g, ?_, ?_⟩
    · simp only [step, outObs, specStep, hcur, lookupP_pm, map_getD_snapP, Tracker.get]
      cases hget : s.get? p with
      | none => simp [snapP]
      | some l => cases l <;> simp [snapP]
    · refine ⟨by simpa [step] using hcur, by simpa [step] using hR.nodup, by simpa [step] using hR.wf, ?_⟩
      intro q hq hm
      simp only [stepDirty] at hm
      exact hR.own q hq (List.mem_filter.1 hm).1
  | recv k l =>
    have hwl : ∀ r ∈ l, Req.wf r := by
      simp only [opInScope, Bool.and_eq_true, List.all_eq_true, decide_eq_true_eq] at hs
      exact hs.2
    refine ⟨{ cur := setP g.cur (k.getD 0) (l.map (fun r => (r.fromO, r.toO))), own := g.own.filter (· ≠ k.getD 0) }, ?_, ?_⟩
    · simp [step, outObs, specStep]
    · refine ⟨?_, ?_, ?_, ?_⟩
      · simp only [step, receive, hcur]; exact setP_pm s _ l hR.nodup
      · simp only [step, receive]; exact keysNodup_set s _ l hR.nodup
      · simp only [step, receive]; exact storeWf_set s _ l hR.wf hwl
      · intro q hq hm
        simp only [List.mem_filter, decide_eq_true_eq] at hq
        simp only [stepDirty, List.mem_cons] at hm
        rcases hm with h | h
        · exact hq.2 h
        · exact hR.own q hq.1 h
  | recvBad k =>
    refine ⟨g, ?_, ?_⟩
    · simp [step, outObs, specStep]
    · exact ⟨by simpa [step] using hcur, by simpa [step] using hR.nodup, by simpa [step] using hR.wf,
        by simpa [stepDirty] using hR.own⟩

theorem run_sim (ops : List Op) : ∀ (g : Ghost) (s : Store) (D : List Int), Rel g s D →
    ops.all opInScope = true → ops.all updWellFormed = true →
    ∃ g', specRun g ops ((run s ops).2.map outObs) = .ok g' ∧ Rel g' (run s ops).1 (runDirty s D ops) := by
  induction ops with
  | nil => intro g s D hR _ _; exact ⟨g, rfl, hR⟩
  | cons op ops ih =>
    intro g s D hR hs hu
    simp only [List.all_cons, Bool.and_eq_true] at hs hu
    obtain ⟨g1, h1, hR1⟩ := step_sim g s D op hR hs.1 hu.1
    obtain ⟨g2, h2, hR2⟩ := ih g1 (step s op).1 (stepDirty s D op) hR1 hs.2 hu.2
    refine ⟨g2, ?_, ?_⟩
    · simp only [run, List.map_cons, specRun, h1]; exact h2
    · simpa [run, runDirty] using hR2

theorem keysNodup_recvAll (ms : List Bcast) : ∀ (s : Store), keysNodup s → keysNodup (recvAll s ms) := by
  induction ms with
  | nil => intro s h; exact h
  | cons m ms ih => intro s h; obtain ⟨k, v⟩ := m; exact ih _ (keysNodup_set s k v h)

theorem lookupP_storeP (s : Store) (p : Int) (hk : keysNodup s) : lookupP (storeP s) p = (s.get? p).map snapP := by
  unfold storeP
  have : ((s.map (fun kv => (kv.1, snapP kv.2))).map (·.1)).Nodup := by
    simpa [List.map_map, Function.comp_def, keysNodup] using hk
  rw [lookupP_sortByKey _ p this]
  exact lookupP_pm s p

theorem any_ne_false (own : List Int) (f g : Int → Option PSnap) (h : ∀ p ∈ own, f p = g p) :
    own.any (fun p => decide (f p ≠ g p)) = false := by
  rw [List.any_eq_false]; intro p hp; simp [h p hp]

/-- **bridge for C08**: on every in-scope operation sequence the model's own observation — per-operation results and
broadcasts, final state, the replica fed every broadcast and the replica fed only the latest broadcast per key — satisfies
the executable Spec that judges the real tracker -/
theorem spec_holds (ops : List Op) (h : inScope ops = true) : spec ops (modelRun ops).1 (modelRun ops).2 = none := by
  simp only [inScope, Bool.and_eq_true] at h
  have h0 : Rel {} [] [] := ⟨rfl, by simp [keysNodup], by intro kv hkv; simp at hkv, by intro p hp; simp at hp⟩
  obtain ⟨g, hg, hR⟩ := run_sim ops {} [] [] h0 h.1 h.2
  have hrepl : ∀ (ms' : List Bcast), Compacts (allBcasts (run [] ops).2) ms' → ∀ p ∈ g.own,
      lookupP (storeP (recvAll [] ms')) p = lookupP (sortByKey g.cur) p := by
    intro ms' hc p hp
    have hd := hR.own p hp
    have := snapshot_replication_general ops ms' hc p hd
    rw [lookupP_storeP _ p (keysNodup_recvAll ms' [] (by simp [keysNodup])), this, hR.cur]
    have hfin := lookupP_storeP (run [] ops).1 p hR.nodup
    simp only [storeP] at hfin
    exact hfin.symm
  have hout : (modelRun ops).1 = (run [] ops).2.map outObs := rfl
  have hfb : (modelRun ops).2.ball = storeP (recvAll [] (allBcasts (run [] ops).2)) := rfl
  have hfc : (modelRun ops).2.blast = storeP (recvAll [] (latestPerKey (allBcasts (run [] ops).2))) := rfl
  have e1 : (modelRun ops).2.a = sortByKey g.cur := by
    show storeP (run [] ops).1 = sortByKey g.cur
    rw [hR.cur]; rfl
  have e2 : (g.own.any fun p => decide (lookupP (modelRun ops).2.ball p ≠ lookupP (sortByKey g.cur) p)) = false :=
    any_ne_false g.own _ _ (fun p hp => by rw [hfb]; exact hrepl _ (Compacts.refl _) p hp)
  have e3 : (g.own.any fun p => decide (lookupP (modelRun ops).2.blast p ≠ lookupP (sortByKey g.cur) p)) = false :=
    any_ne_false g.own _ _ (fun p hp => by rw [hfc]; exact hrepl _ (latestPerKey_compacts _) p hp)
  unfold spec
  rw [hout, hg]
  simp only [e1, e2, e3]
  simp

/-- non-vacuity: an in-scope history with merges, progress, completion, cancel-all and a foreign snapshot -/
example : inScope [.add 0 10 20, .add 0 15 30, .upd 0 17 30, .add 1 1 2, .done 1 2, .recv (some 0) [⟨3, 4⟩], .cancel, .add 0 5 6, .get 0] = true := by
  decide

end Firebolt.C08
