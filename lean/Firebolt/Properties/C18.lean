import Firebolt.TransExpected
import Firebolt.Properties.TransBase
import Firebolt.Model.Supervisor
import Firebolt.Generated.Skeleton
import Firebolt.Expected.Skeleton
import Firebolt.Generated.Source
import Firebolt.Expected.Source
import Firebolt.Generated.Closure
import Firebolt.Expected.Closure
/-!
# C18 — A failed source is re-created and restarted; a finished source ends the run
Theorems about `Model/Supervisor.lean` for every number of consecutive failures.
-/
namespace Firebolt.C18
open Firebolt Firebolt.Supervisor

/-- the call sequence for `k` failures followed by a clean finish, spelled out -/
def expected : Nat → Nat → List Call
  | i, 0 => [.start i, .returned i .finished, .closeCh]
  | i, k + 1 => [.start i, .returned i .failed, .pause, .factory (i + 1), .init (i + 1), .setup (i + 1)] ++ expected (i + 1) k

theorem supervise_failures_then_finish (i k : Nat) :
    superviseFrom i (List.replicate k .failed ++ [.finished]) = expected i k := by
  induction k generalizing i with
  | zero => simp [superviseFrom, expected]
  | succ k ih => simp [List.replicate_succ, superviseFrom, expected, prepare, ih]

/-- **exactly `k+1` instances, each created, initialised, set up and started once, in that order** -/
theorem instances (k : Nat) :
    ∀ j, 1 ≤ j → j ≤ k + 1 →
      (lifecycle (List.replicate k .failed ++ [.finished])).count (.factory j) = 1 ∧
      (lifecycle (List.replicate k .failed ++ [.finished])).count (.start j) = 1 := by
  have key : ∀ (k i j : Nat), ((expected i k).count (.factory j) = if i < j ∧ j ≤ i + k then 1 else 0) ∧
                              ((expected i k).count (.start j) = if i ≤ j ∧ j ≤ i + k then 1 else 0) := by
    intro k
    induction k with
    | zero =>
      intro i j
      simp only [expected, List.count_cons, List.count_nil]
      constructor
      · have : ¬ (i < j ∧ j ≤ i + 0) := by omega
        simp [this]
      · by_cases h : i = j
        · subst h; simp
        · simp [h]; omega
    | succ k ih =>
      intro i j
      obtain ⟨h1, h2⟩ := ih (i + 1) j
      simp only [expected, List.cons_append, List.nil_append, List.count_cons, h1, h2]
      constructor
      · by_cases h : i + 1 = j
        · subst h
          have a : ¬ (i + 1 < i + 1 ∧ i + 1 ≤ i + 1 + k) := by omega
          have b : (i < i + 1 ∧ i + 1 ≤ i + (k + 1)) := by omega
          simp [a, b]
        · by_cases h' : i + 1 < j ∧ j ≤ i + 1 + k
          · have b : (i < j ∧ j ≤ i + (k + 1)) := by omega
            simp [h, h', b]
          · have b : ¬ (i < j ∧ j ≤ i + (k + 1)) := by omega
            simp [h, h', b]
      · by_cases h : i = j
        · subst h
          have a : ¬ (i + 1 ≤ i ∧ i ≤ i + 1 + k) := by omega
          have b : (i ≤ i ∧ i ≤ i + (k + 1)) := by omega
          simp [a, b]
        · by_cases h' : i + 1 ≤ j ∧ j ≤ i + 1 + k
          · have b : (i ≤ j ∧ j ≤ i + (k + 1)) := by omega
            simp [h, h', b]
          · have b : ¬ (i ≤ j ∧ j ≤ i + (k + 1)) := by omega
            simp [h, h', b]
  intro j hj1 hj2
  simp only [lifecycle, supervise_failures_then_finish, List.count_append, prepare, List.count_cons, List.count_nil]
  obtain ⟨h1, h2⟩ := key k 1 j
  rw [h1, h2]
  by_cases hj : j = 1
  · subst hj; simp
  · have a : (1 < j ∧ j ≤ 1 + k) := by omega
    have b : (1 ≤ j ∧ j ≤ 1 + k) := by omega
    have c : ¬ (1 = j) := fun e => hj e.symm
    simp [a, b, c]

/-- the source channel is closed only after a `nil` return — the last call of the run — and never after a failure -/
theorem close_only_after_finish (k : Nat) :
    (lifecycle (List.replicate k .failed ++ [.finished])).getLast? = some .closeCh ∧
    (lifecycle (List.replicate k .failed ++ [.finished])).count .closeCh = 1 := by
  have key : ∀ (k i : Nat), (expected i k).getLast? = some .closeCh ∧ (expected i k).count .closeCh = 1 := by
    intro k
    induction k with
    | zero => intro i; simp [expected]
    | succ k ih =>
      intro i
      obtain ⟨h1, h2⟩ := ih (i + 1)
      constructor
      · simp only [expected]
        rw [List.getLast?_append]
        simp [h1]
      · simp only [expected, List.count_append, h2]; simp
  obtain ⟨h1, h2⟩ := key k 1
  simp only [lifecycle, supervise_failures_then_finish]
  constructor
  · rw [List.getLast?_append]; simp [h1]
  · simp [List.count_append, h2, prepare]

/-- a source that keeps failing is never closed: the run does not end -/
theorem failures_never_close (k i : Nat) : .closeCh ∉ superviseFrom i (List.replicate k .failed) := by
  induction k generalizing i with
  | zero => simp [superviseFrom]
  | succ k ih => simp [List.replicate_succ, superviseFrom, prepare, ih]

/-- every `start j` is preceded by `setup j` (which stands for a successful Setup), and instance `j+1` is started only
after instance `j` has returned: the calls appear in exactly the spelled-out order -/
theorem order_spelled_out :
    lifecycle [.failed, .failed, .finished] =
      [.factory 1, .init 1, .setup 1, .start 1, .returned 1 .failed, .pause, .factory 2, .init 2, .setup 2, .start 2, .returned 2 .failed,
       .pause, .factory 3, .init 3, .setup 3, .start 3, .returned 3 .finished, .closeCh] := by decide

theorem skeleton_superviseSource : Generated.superviseSource = Expected.superviseSource := by rfl
theorem skeleton_prepareSource : Generated.prepareSource = Expected.prepareSource := by rfl
theorem skeleton_execute : Generated.execute = Expected.execute := by rfl


/-! ### functions the model's assumptions rest on (construction, wiring, surrounding calls) are unchanged -/
theorem source_withConfig : GeneratedSrc.withConfig = ExpectedSrc.withConfig := by rfl
theorem source_instantiateSource : GeneratedSrc.instantiateSource = ExpectedSrc.instantiateSource := by rfl

/-! ### the built-in source is set up from the executor own parameter map on every incarnation -/
theorem source_kcSetup : GeneratedSrc.kcSetup = ExpectedSrc.kcSetup := by rfl

/-! ### influence closure: the pinned functions, and every function of the repository that writes a struct field or package
variable they read, are unchanged (digests regenerated from /repo on every run; a difference names the functions) -/
/-! ### The code itself, translated (`Generated/Trans.lean`, rewritten from /repo on every run by extractor/translate.go)

The `translated_*` theorems are about MiniGo terms the translator produced from the current Go source: for every
environment the translated fragment does what the hand-written model function says.  They are semantic obligations —
a rewrite that preserves the behaviour keeps them provable, a changed comparison, bound or argument does not. -/
section Translated
open Firebolt.MiniGo Firebolt.TransBase

/-- prepareSource, translated: a fresh instance from the registry becomes the executor's source, is initialised with the
configured id and context, and set up with the configured parameters and the executor's one source channel — the same
arguments on every call; a failing Setup ends the process before anything is started -/
theorem translated_prepareSource (σ : Env) :
    obs Trans.exPrepareSource σ =
      ⟨[("node.GetRegistry().InstantiateSource", [σ "e.config.Source.Name"]),
        ("e.source.Init", [σ "e.config.Source.ID", σ "e.fbContext"]),
        ("e.source.Setup", [σ "e.config.Source.Params", σ "e.sourceCh"])] ++
        (if σ "e.source.Setup#0" ≠ 0 then [("os.Exit", [1])] else []), none, false⟩ ∧
    (run Trans.exPrepareSource σ).env "e.source" = σ "node.GetRegistry().InstantiateSource#0" := by
  by_cases h : σ "e.source.Setup#0" = 0 <;> minigo_simp [Trans.exPrepareSource, h]

/-- one round of the supervisor's loop, translated: the first round starts the source prepared at construction, every
later round prepares a new one first; a nil return from Start ends the loop (`ret = some [1]`: break) without a pause;
an error is followed by `time.Sleep(10 * time.Second)` and another round -/
theorem translated_superviseBody (σ : Env) :
    obs Trans.exSuperviseBody σ =
      ⟨(if σ "initialRun" ≠ 0 then [] else [("e.prepareSource", [])]) ++ [("e.source.Start", [])] ++
        (if σ "e.source.Start#0" = 0 then [] else [("time.Sleep", [wrap64 (10 * σ "time.Second")])]),
       (if σ "e.source.Start#0" = 0 then some [1] else none), false⟩ ∧
    (run Trans.exSuperviseBody σ).env "initialRun" = 0 := by
  by_cases h1 : σ "initialRun" = 0 <;> by_cases h2 : σ "e.source.Start#0" = 0 <;>
  minigo_simp [Trans.exSuperviseBody, h1, h2]

/-- the same two in the exact form the driver's counterexample search uses (`fbdriver transcheck`) -/
theorem translated_prepareSource_exact (σ : Env) : obs Trans.exPrepareSource σ = TransExpected.exPrepareSource σ := by
  by_cases h : σ "e.source.Setup#0" = 0 <;> minigo_simp [Trans.exPrepareSource, TransExpected.exPrepareSource, h]

theorem translated_superviseBody_exact (σ : Env) : obs Trans.exSuperviseBody σ = TransExpected.exSuperviseBody σ := by
  by_cases h1 : σ "initialRun" = 0 <;> by_cases h2 : σ "e.source.Start#0" = 0 <;>
  minigo_simp [Trans.exSuperviseBody, TransExpected.exSuperviseBody, h1, h2]

end Translated

theorem closure_unchanged : GeneratedClo.C18 = ExpectedClo.C18 := by rfl

end Firebolt.C18
