import Firebolt.TransExpected
import Firebolt.Properties.TransBase
import Firebolt.Spec.Receiver
import Firebolt.Generated.Source
import Firebolt.Expected.Source
import Firebolt.Generated.Closure
import Firebolt.Expected.Closure
/-!
# C10 — Message receiver: catch up first, then deliver exactly the unacked messages

Theorems about `Model/Receiver.lean` for every history of records and end-of-partition signals
(any order, any repetition), any number of partitions.
-/
namespace Firebolt.C10
open Firebolt Firebolt.Receiver

/-- decodable records of a history, oldest first -/
def recs : List Ev → List Wire
  | [] => []
  | .record (some w) :: t => w :: recs t
  | _ :: t => recs t

def bufGet (b : List (Bytes × Wire)) (k : Bytes) : Option Wire :=
  match b with
  | [] => none
  | (k', w) :: rest => if k' = k then some w else bufGet rest k

theorem bufGet_set (b : List (Bytes × Wire)) (k j : Bytes) (w : Wire) :
    bufGet (bufSet b k w) j = if k = j then some w else bufGet b j := by
  induction b with
  | nil => simp [bufSet, bufGet]
  | cons kv rest ih =>
    obtain ⟨k', w'⟩ := kv
    by_cases h1 : k' = k
    · subst h1
      by_cases h2 : k' = j <;> simp [bufSet, bufGet, h2]
    · by_cases h2 : k' = j
      · subst h2
        have : ¬ k = k' := fun e => h1 e.symm
        simp [bufSet, bufGet, h1, this]
      · simp [bufSet, bufGet, h1, h2, ih]

theorem lastWith_snoc (h : List Wire) (w : Wire) (k : Bytes) :
    lastWith k (h ++ [w]) = if ukey w.msg = k then some w else lastWith k h := by
  unfold lastWith; simp [List.reverse_append, List.find?_cons]; split <;> simp_all

/-- each buffered entry sits under its own record key, and keys are unique -/
def BufOk (b : List (Bytes × Wire)) : Prop := ∀ kv ∈ b, kv.1 = ukey kv.2.msg

theorem bufSet_ok (b : List (Bytes × Wire)) (w : Wire) (h : BufOk b) : BufOk (bufSet b (ukey w.msg) w) := by
  induction b with
  | nil => intro kv hkv; simp [bufSet] at hkv; subst hkv; rfl
  | cons x rest ih =>
    obtain ⟨k', w'⟩ := x
    have hrest : BufOk rest := fun kv hkv => h kv (List.mem_cons_of_mem _ hkv)
    by_cases h1 : k' = ukey w.msg
    · intro kv hkv
      simp [bufSet, h1] at hkv
      rcases hkv with rfl | hkv
      · rfl
      · exact hrest kv hkv
    · intro kv hkv
      simp [bufSet, h1] at hkv
      rcases hkv with rfl | hkv
      · exact h (k', w') (List.mem_cons_self ..)
      · exact ih hrest kv hkv

/-- the model never goes back to catching up -/
theorem init_mono (s : St) (e : Ev) (h : s.initialized = true) : (step s e).1.initialized = true := by
  cases e with
  | record w => cases w <;> simp [step, h] <;> split <;> simp [h]
  | eof p => simp [step, h]
  | kerr => simp [step, h]

/-- **nothing is delivered while catching up**, whatever arrives -/
theorem silent_until_caught_up (s : St) (e : Ev) (h : (step s e).1.initialized = false) : (step s e).2 = [] := by
  cases e with
  | record w =>
    cases w with
    | none => simp [step]
    | some w =>
      cases hs : s.initialized with
      | false => simp [step, hs]
      | true => have := init_mono s (.record (some w)) hs; rw [this] at h; cases h
  | eof p =>
    simp only [step] at h ⊢
    generalize addEof s.eofs p = E at h ⊢
    by_cases hc : (!s.initialized && decide (E.length ≥ s.partitionCount)) = true
    · simp [hc] at h
    · simp [hc]
  | kerr => simp [step]

/-- while catching up the buffer holds, per record key, exactly the most recent decodable record of the history -/
structure Pre (s : St) (hist : List Wire) : Prop where
  notInit : s.initialized = false
  ok : BufOk s.buffer
  look : ∀ k, bufGet s.buffer k = lastWith k hist

def evRecs : Ev → List Wire
  | .record (some w) => [w]
  | _ => []

theorem step_pre (s : St) (hist : List Wire) (e : Ev) (hp : Pre s hist)
    (h : (step s e).1.initialized = false) : Pre (step s e).1 (hist ++ evRecs e) := by
  obtain ⟨h0, hok, hl⟩ := hp
  cases e with
  | record w =>
    cases w with
    | none => simpa [step, evRecs] using ⟨h0, hok, hl⟩
    | some w =>
      simp only [step, h0, evRecs]
      refine ⟨by simpa using h0, by simpa using bufSet_ok s.buffer w hok, fun k => ?_⟩
      simp [bufGet_set, lastWith_snoc, hl]
  | eof p =>
    simp only [step] at h ⊢
    generalize addEof s.eofs p = E at h ⊢
    by_cases hc : (!s.initialized && decide (E.length ≥ s.partitionCount)) = true
    · simp [hc] at h
    · simp only [hc]; simpa [evRecs] using ⟨h0, hok, hl⟩
  | kerr => simpa [step, evRecs] using ⟨h0, hok, hl⟩

theorem run_init_mono (es : List Ev) (s : St) (h : (run s es).1.initialized = false) : s.initialized = false := by
  induction es generalizing s with
  | nil => simpa [run] using h
  | cons e es ih =>
    simp only [run] at h
    have := ih (step s e).1 h
    cases hs : s.initialized with
    | false => rfl
    | true => rw [init_mono s e hs] at this; cases this

/-- **catch-up buffer**: for every history, as long as the receiver has not been released, nothing at all was delivered
and the buffer is the latest record per (type, key) -/
theorem catching_up (es : List Ev) (s : St) (hist : List Wire) (hp : Pre s hist)
    (h : (run s es).1.initialized = false) :
    Pre (run s es).1 (hist ++ es.flatMap evRecs) ∧ ∀ d ∈ (run s es).2, d = [] := by
  induction es generalizing s hist with
  | nil => simpa [run] using hp
  | cons e es ih =>
    simp only [run, List.flatMap_cons] at h ⊢
    have h1 : (step s e).1.initialized = false := run_init_mono es _ h
    have hp1 := step_pre s hist e hp h1
    have := ih (step s e).1 (hist ++ evRecs e) hp1 h
    refine ⟨by simpa [List.append_assoc] using this.1, ?_⟩
    intro d hd
    rcases List.mem_cons.1 hd with rfl | hd
    · exact silent_until_caught_up s e h1
    · exact this.2 d hd

/-- **release**: the signal that completes the set of partitions delivers exactly the buffered records that are not
acknowledgements — i.e. (by `catching_up`) the most recent record of every (type, key) unless it is an ack — and
empties the buffer -/
theorem release (s : St) (p : Int) (h0 : s.initialized = false)
    (hall : (addEof s.eofs p).length ≥ s.partitionCount) :
    (step s (.eof p)).1.initialized = true ∧ (step s (.eof p)).1.buffer = [] ∧
    (step s (.eof p)).2 = (s.buffer.filter (fun kw => !kw.2.ack)).map (fun kw => kw.2.msg) := by
  simp only [step, h0]
  simp [hall]

/-- the receiver is released only by an end-of-partition signal that brings the number of *distinct* partitions
seen to the partition count (repeated signals of one partition do not count twice) -/
theorem released_only_when_all (s : St) (e : Ev) (h0 : s.initialized = false) (h1 : (step s e).1.initialized = true) :
    ∃ p, e = .eof p ∧ (addEof s.eofs p).length ≥ s.partitionCount := by
  cases e with
  | record w => cases w <;> simp [step, h0] at h1
  | kerr => simp [step, h0] at h1
  | eof p =>
    refine ⟨p, rfl, ?_⟩
    simp only [step, h0] at h1
    by_cases hc : (addEof s.eofs p).length ≥ s.partitionCount
    · exact hc
    · simp [hc, h0] at h1

/-- the set of partitions seen has no duplicates, so its length is the number of distinct partitions -/
theorem eofs_nodup (s : St) (e : Ev) (h : s.eofs.Nodup) : (step s e).1.eofs.Nodup := by
  cases e with
  | record w =>
    cases w with
    | none => simpa [step] using h
    | some w =>
      simp only [step]
      split
      · simpa using h
      · split <;> simpa using h
  | kerr => simpa [step] using h
  | eof p =>
    simp only [step]
    have hn : (addEof s.eofs p).Nodup := by
      unfold addEof
      split
      · exact h
      · rename_i hc
        refine List.nodup_cons.2 ⟨?_, h⟩
        simpa using hc
    split <;> simpa using hn

/-- **after release**: every new record that is not an acknowledgement is delivered exactly once, at once, unchanged;
acknowledgements and undecodable records deliver nothing; further signals deliver nothing -/
theorem after_release (s : St) (h : s.initialized = true) :
    (∀ w, (step s (.record (some w))).2 = if w.ack then [] else [w.msg]) ∧
    (step s (.record none)).2 = [] ∧ (∀ p, (step s (.eof p)).2 = []) ∧ (step s .kerr).2 = [] := by
  refine ⟨fun w => ?_, by simp [step], fun p => by simp [step, h], by simp [step]⟩
  cases ha : w.ack <;> simp [step, h, ha]

/-- replay start: the low watermark, or exactly 50,000 records before the high watermark; never below the low
watermark, never beyond the high watermark -/
theorem start_offset (low high : Int) (h0 : 0 ≤ low) (h1 : low ≤ high) (h2 : high ≤ 2^62) :
    startOffset low high false = specStart low high ∧ low ≤ startOffset low high false ∧
    startOffset low high false ≤ high ∧ high - startOffset low high false ≤ 50000 := by
  unfold startOffset specStart maxReplay
  have e1 : wrap64 (high - low) = high - low := wrap64_id _ (by omega) (by omega)
  simp only [Bool.false_eq_true, if_false, e1]
  split
  · have e2 : wrap64 (high - 50000) = high - 50000 := wrap64_id _ (by omega) (by omega)
    rw [e2]; omega
  · omega


/-! ### bridge: the model's deliveries satisfy the Spec monitor, for every history -/

theorem bufSet_keys (b : List (Bytes × Wire)) (k : Bytes) (w : Wire) :
    (bufSet b k w).map (·.1) = if k ∈ b.map (·.1) then b.map (·.1) else b.map (·.1) ++ [k] := by
  induction b with
  | nil => simp [bufSet]
  | cons kv rest ih =>
    obtain ⟨k', w'⟩ := kv
    by_cases h1 : k' = k
    · subst h1; simp [bufSet]
    · have h2 : ¬ k = k' := fun e => h1 e.symm
      simp only [bufSet, h1, if_false, List.map_cons, ih, List.mem_cons, h2, false_or]
      split <;> simp

theorem bufSet_nodup (b : List (Bytes × Wire)) (k : Bytes) (w : Wire) (h : (b.map (·.1)).Nodup) :
    ((bufSet b k w).map (·.1)).Nodup := by
  rw [bufSet_keys]
  split
  · exact h
  · rename_i hk
    rw [List.nodup_append]
    refine ⟨h, by simp, ?_⟩
    intro a ha b' hb e
    simp at hb; subst hb; subst e; exact hk ha

theorem bufGet_of_mem (b : List (Bytes × Wire)) (kw : Bytes × Wire) (hm : kw ∈ b) (hn : (b.map (·.1)).Nodup) :
    bufGet b kw.1 = some kw.2 := by
  induction b with
  | nil => cases hm
  | cons x rest ih =>
    obtain ⟨k', w'⟩ := x
    simp only [List.map_cons, List.nodup_cons] at hn
    rcases List.mem_cons.1 hm with rfl | hm
    · simp [bufGet]
    · have hne : ¬ k' = kw.1 := by
        intro e; exact hn.1 (e ▸ List.mem_map.2 ⟨kw, hm, rfl⟩)
      simp [bufGet, hne, ih hm hn.2]

theorem bufGet_mem (b : List (Bytes × Wire)) (k : Bytes) (w : Wire) (h : bufGet b k = some w) : (k, w) ∈ b := by
  induction b with
  | nil => simp [bufGet] at h
  | cons x rest ih =>
    obtain ⟨k', w'⟩ := x
    simp only [bufGet] at h
    by_cases hk : k' = k
    · simp [hk] at h; subst hk; subst h; exact List.mem_cons_self ..
    · simp [hk] at h; exact List.mem_cons_of_mem _ (ih h)

/-- what ties the model state to the monitor's ghost state -/
structure Sim (s : St) (g : Ghost) : Prop where
  pc : s.partitionCount = g.partitionCount
  init : s.initialized = g.caughtUp
  eofs : s.eofs = g.seen
  pre : s.initialized = false → BufOk s.buffer ∧ (s.buffer.map (·.1)).Nodup ∧ ∀ k, bufGet s.buffer k = lastWith k g.hist

/-- at release the model's deliveries are exactly what the statement prescribes -/
theorem release_catchUpOk (b : List (Bytes × Wire)) (hist : List Wire) (hok : BufOk b) (hn : (b.map (·.1)).Nodup)
    (hl : ∀ k, bufGet b k = lastWith k hist) :
    catchUpOk hist ((b.filter (fun kw => !kw.2.ack)).map (fun kw => kw.2.msg)) = true := by
  unfold catchUpOk
  simp only [Bool.and_eq_true, List.all_eq_true, decide_eq_true_eq]
  refine ⟨⟨?_, ?_⟩, ?_⟩
  · intro m hm
    obtain ⟨kw, hkw, rfl⟩ := List.mem_map.1 hm
    obtain ⟨hmem, hack⟩ := List.mem_filter.1 hkw
    have h1 := bufGet_of_mem b kw hmem hn
    rw [hok kw hmem, hl] at h1
    rw [h1]; simpa using hack
  · intro w _
    cases hlw : lastWith (ukey w.msg) hist with
    | none => rfl
    | some w' =>
      simp only [Bool.or_eq_true, List.contains_iff_mem]
      by_cases ha : w'.ack = true
      · exact Or.inl ha
      · right
        rw [← hl] at hlw
        have hmem := bufGet_mem b _ _ hlw
        exact List.mem_map.2 ⟨(ukey w.msg, w'), List.mem_filter.2 ⟨hmem, by simpa using ha⟩, rfl⟩
  · have : ((b.filter (fun kw => !kw.2.ack)).map (fun kw => kw.2.msg)).map ukey = (b.filter (fun kw => !kw.2.ack)).map (·.1) := by
      rw [List.map_map]
      apply List.map_congr_left
      intro kw hkw
      exact (hok kw (List.mem_filter.1 hkw).1).symm
    rw [this]
    exact List.Nodup.sublist ((List.filter_sublist).map _) hn

theorem step_pc (s : St) (e : Ev) : (step s e).1.partitionCount = s.partitionCount := by
  cases e with
  | record w => cases w <;> simp [step] <;> split <;> (try split) <;> rfl
  | eof p => simp only [step]; split <;> rfl
  | kerr => rfl

theorem step_sim (s : St) (g : Ghost) (e : Ev) (h : Sim s g) :
    ∃ g', specStep g e (step s e).2 = .ok g' ∧ Sim (step s e).1 g' := by
  obtain ⟨h1, h2, h3, h4⟩ := h
  have hpc : ∀ g' : Ghost, g'.partitionCount = g.partitionCount → (step s e).1.partitionCount = g'.partitionCount :=
    fun g' hg' => by rw [step_pc, hg']; exact h1
  cases e with
  | record w =>
    cases w with
    | none => exact ⟨g, by simp [specStep, step], ⟨h1, h2, h3, h4⟩⟩
    | some w =>
      cases hi : s.initialized with
      | false =>
        have hg : g.caughtUp = false := by rw [← h2, hi]
        obtain ⟨p1, p2, p3⟩ := h4 hi
        refine ⟨{ g with hist := g.hist ++ [w] }, by simp [specStep, step, hi, hg], ⟨hpc _ rfl, by simpa [step, hi] using hg.symm, by simpa [step, hi] using h3, ?_⟩⟩
        intro _
        simp only [step, hi, Bool.not_false, if_true]
        refine ⟨bufSet_ok s.buffer w p1, bufSet_nodup s.buffer _ w p2, fun k => ?_⟩
        simp [bufGet_set, lastWith_snoc, p3]
      | true =>
        have hg : g.caughtUp = true := by rw [← h2, hi]
        refine ⟨{ g with hist := g.hist ++ [w] }, ?_, ⟨hpc _ rfl, by simp [step, hi, hg]; split <;> simp [hi], by simp [step, hi]; split <;> exact h3, ?_⟩⟩
        · cases ha : w.ack <;> simp [specStep, step, hi, hg, ha]
        · intro hf; simp [step, hi] at hf; split at hf <;> simp [hi] at hf
  | eof p =>
    have hseen : addEof g.seen p = addEof s.eofs p := by rw [h3]
    cases hi : s.initialized with
    | true =>
      have hg : g.caughtUp = true := by rw [← h2, hi]
      refine ⟨{ g with seen := addEof s.eofs p }, by simp [specStep, step, hi, hg, hseen], ⟨hpc _ rfl, by simp [step, hi, hg], by simp [step, hi], ?_⟩⟩
      intro hf; simp [step, hi] at hf
    | false =>
      have hg : g.caughtUp = false := by rw [← h2, hi]
      obtain ⟨p1, p2, p3⟩ := h4 hi
      by_cases hall : (addEof s.eofs p).length ≥ s.partitionCount
      · have hall' : (addEof s.eofs p).length ≥ g.partitionCount := by rw [← h1]; exact hall
        refine ⟨{ g with seen := addEof s.eofs p, caughtUp := true }, ?_, ⟨hpc _ rfl, by simp [step, hi, hall], by simp [step, hi, hall], ?_⟩⟩
        · simp only [specStep, hg, hseen, Bool.false_eq_true, if_false, hall', if_true, step, hi, Bool.not_false, Bool.true_and, decide_eq_true_eq, hall]
          simp [release_catchUpOk s.buffer g.hist p1 p2 p3]
        · intro hf; simp [step, hi, hall] at hf
      · have hall' : ¬ (addEof s.eofs p).length ≥ g.partitionCount := by rw [← h1]; exact hall
        refine ⟨{ g with seen := addEof s.eofs p }, ?_, ⟨hpc _ rfl, ?_, by simp [step, hi, hall], ?_⟩⟩
        · simp only [specStep, hg, hseen, Bool.false_eq_true, if_false, hall', step, hi, Bool.not_false, Bool.true_and, decide_eq_true_eq, hall]
          simp
        · simp only [step, hi, Bool.not_false, Bool.true_and, decide_eq_true_eq, hall, if_false]; exact hg.symm
        · intro _; simp only [step, hi, Bool.not_false, Bool.true_and, decide_eq_true_eq, hall, if_false]; exact ⟨p1, p2, p3⟩
  | kerr => exact ⟨g, by simp [specStep, step], ⟨h1, h2, h3, h4⟩⟩

/-- **bridge**: for every history of records and end-of-partition signals (any order, any repetition, any number of
partitions) the deliveries of the receiver model satisfy the Spec monitor that also judges the real receiver -/
theorem spec_holds (evs : List Ev) : ∀ (s : St) (g : Ghost), Sim s g → ∃ g', specRun g evs (run s evs).2 = .ok g' := by
  induction evs with
  | nil => intro s g _; exact ⟨g, by simp [specRun, run]⟩
  | cons e es ih =>
    intro s g h
    obtain ⟨g1, hs, hsim⟩ := step_sim s g e h
    obtain ⟨g2, hr⟩ := ih (step s e).1 g1 hsim
    exact ⟨g2, by simp only [run, specRun, hs]; exact hr⟩

theorem spec_holds_from_start (n : Nat) (evs : List Ev) :
    ∃ g', specRun { partitionCount := n } evs (run { partitionCount := n } evs).2 = .ok g' :=
  spec_holds evs _ _ (Sim.mk rfl rfl rfl (fun _ => And.intro (fun kv hkv => nomatch hkv) (And.intro List.nodup_nil (fun k => rfl))))

/-- non-vacuity + the repeated-signal scenario that the unrepaired code got wrong (it counted signals, not partitions) -/
example :
    let m : Msg := ⟨[116], [107], [1]⟩
    let evs : List Ev := [.record (some ⟨m, false⟩), .eof 0, .eof 0, .record (some ⟨m, true⟩), .eof 1]
    (run { partitionCount := 2 } evs).2 = [[], [], [], [], []] ∧ (run { partitionCount := 2 } evs).1.initialized = true := by
  decide


/-! ### the functions this model was transcribed from are unchanged (regenerated from /repo on every run) -/
theorem source_mrHandleEvents : GeneratedSrc.mrHandleEvents = ExpectedSrc.mrHandleEvents := by rfl
theorem source_mrBuildPartitionAssignments : GeneratedSrc.mrBuildPartitionAssignments = ExpectedSrc.mrBuildPartitionAssignments := by rfl
theorem source_mrProcessEvent : GeneratedSrc.mrProcessEvent = ExpectedSrc.mrProcessEvent := by rfl
theorem source_mrProcessMessage : GeneratedSrc.mrProcessMessage = ExpectedSrc.mrProcessMessage := by rfl
theorem source_mrDeliverMessage : GeneratedSrc.mrDeliverMessage = ExpectedSrc.mrDeliverMessage := by rfl
theorem source_mrProcessInitBuffer : GeneratedSrc.mrProcessInitBuffer = ExpectedSrc.mrProcessInitBuffer := by rfl
theorem source_msgUniqueKey : GeneratedSrc.msgUniqueKey = ExpectedSrc.msgUniqueKey := by rfl
theorem source_tyWireMessage : GeneratedSrc.tyWireMessage = ExpectedSrc.tyWireMessage := by rfl


/-! ### functions the model's assumptions rest on (construction, wiring, surrounding calls) are unchanged -/
theorem source_exStartMessaging : GeneratedSrc.exStartMessaging = ExpectedSrc.exStartMessaging := by rfl
theorem source_mrStart : GeneratedSrc.mrStart = ExpectedSrc.mrStart := by rfl
theorem source_mrInitialized : GeneratedSrc.mrInitialized = ExpectedSrc.mrInitialized := by rfl
theorem source_mrSetNotificationFunc : GeneratedSrc.mrSetNotificationFunc = ExpectedSrc.mrSetNotificationFunc := by rfl
theorem source_newKafkaReceiver : GeneratedSrc.newKafkaReceiver = ExpectedSrc.newKafkaReceiver := by rfl
theorem source_mrShutdown : GeneratedSrc.mrShutdown = ExpectedSrc.mrShutdown := by rfl

/-! ### influence closure: the pinned functions, and every function of the repository that writes a struct field or package
variable they read, are unchanged (digests regenerated from /repo on every run; a difference names the functions) -/
/-! ### The code itself, translated (`Generated/Trans.lean`, rewritten from /repo on every run by extractor/translate.go)

The `translated_*` theorems are about MiniGo terms the translator produced from the current Go source: for every
environment the translated fragment does what the hand-written model function says.  They are semantic obligations —
a rewrite that preserves the behaviour keeps them provable, a changed comparison, bound or argument does not. -/
section Translated
open Firebolt.MiniGo Firebolt.TransBase

/-- processMessage: an undecodable record does nothing; while catching up a record is buffered under its key and not
delivered; afterwards it is delivered iff it is not an acknowledgement -/
theorem translated_mrProcessMessage (σ : Env) :
    let r := run Trans.mrProcessMessage σ
    r.stuck = false ∧
    ((("r.deliverMessage", [σ "wireMsg.Message"]) ∈ r.calls) ↔
        (σ "json.Unmarshal#0" = 0 ∧ σ "r.initialized" ≠ 0 ∧ σ "wireMsg.Acknowledged" = 0)) ∧
    (r.env "r.initBuffer[uniqueKey(wireMsg.Message)]" =
        if σ "json.Unmarshal#0" = 0 ∧ σ "r.initialized" = 0 then σ "&wireMessage{}" else σ "r.initBuffer[uniqueKey(wireMsg.Message)]") := by
  by_cases h1 : σ "json.Unmarshal#0" = 0 <;> by_cases h2 : σ "r.initialized" = 0 <;> by_cases h3 : σ "wireMsg.Acknowledged" = 0 <;>
  minigo_simp [Trans.mrProcessMessage, h1, h2, h3]

/-- the replay start offset of one partition of the message topic, as assigned -/
theorem translated_mrStartOffsetBody (σ : Env) :
    let low := σ "r.consumer.QueryWatermarkOffsets#0"
    let high := σ "r.consumer.QueryWatermarkOffsets#1"
    let err := σ "r.consumer.QueryWatermarkOffsets#2"
    let low' := if err ≠ 0 then 0 else low
    let r := run Trans.mrStartOffsetBody σ
    r.stuck = false ∧ r.ret = none ∧
    r.calls.getLast? = some ("append assignments {Topic,Partition,Offset}",
      [σ "&r.topic", σ "partition.ID", if wrap64 (high - low') > 50000 then wrap64 (high - 50000) else low']) := by
  by_cases h0 : σ "partition.Error.Code#0" = σ "kafka.ErrNoError" <;>
  by_cases h1 : σ "r.consumer.QueryWatermarkOffsets#2" = 0 <;>
  by_cases h2 : wrap64 (σ "r.consumer.QueryWatermarkOffsets#1" - (if σ "r.consumer.QueryWatermarkOffsets#2" ≠ 0 then 0 else σ "r.consumer.QueryWatermarkOffsets#0")) > 50000 <;>
  simp [h1] at h2 <;>
  minigo_simp [Trans.mrStartOffsetBody, h0, h1, h2] <;> (try omega)

/-- and that is the model's `startOffset` (a failing watermark query of the scripted client yields zero values) -/
theorem model_startOffset_eq (low high : Int) (err : Bool) (hz : err = true → high = 0) :
    (if wrap64 (high - (if err then 0 else low)) > 50000 then wrap64 (high - 50000) else (if err then 0 else low)) =
      Receiver.startOffset low high err := by
  cases err <;> simp [Receiver.startOffset, Receiver.maxReplay] at hz ⊢
  simp [hz]

/-- processEvent of the receiver, translated (which clause of the type switch matches is the input `typeswitch#0`: 0 a record,
1 an end-of-partition signal, 2 a client error): a record goes to processMessage; a client error changes nothing; an
end-of-partition signal records the partition in a *set* and takes the number of caught-up partitions from the size of that set
(so repeated signals of one partition count once — F2); the backlog is released — under the init lock, `initialized` set
first — exactly when the receiver was not initialised yet and that size has reached the partition count -/
theorem translated_mrProcessEvent (σ : Env) (hs : σ "typeswitch#0" = 0 ∨ σ "typeswitch#0" = 1 ∨ σ "typeswitch#0" = 2) :
    let r := run Trans.mrProcessEvent σ
    let names := r.calls.map (·.1)
    r.stuck = false ∧ r.ret = none ∧
    (σ "typeswitch#0" = 0 → r.calls = [("typeswitch e := ev.(type)", []), ("r.processMessage", [σ "e.Value"])]) ∧
    (σ "typeswitch#0" = 2 → r.calls = [("typeswitch e := ev.(type)", [])] ∧ r.env "r.initialized" = σ "r.initialized") ∧
    (σ "typeswitch#0" = 1 →
      r.env "r.partitionEOFs" = σ "len(r.eofPartitions)" ∧
      ("r.processInitBuffer" ∈ names ↔ (σ "r.initialized" = 0 ∧ σ "len(r.eofPartitions)" ≥ σ "r.partitionCount")) ∧
      ("r.processInitBuffer" ∈ names → r.env "r.initialized" = 1 ∧ "r.initMutex.Lock" ∈ names) ∧
      ("r.processInitBuffer" ∉ names → r.env "r.initialized" = σ "r.initialized") ∧
      "r.processMessage" ∉ names) := by
  rcases hs with h | h | h <;> by_cases h1 : σ "r.eofPartitions" = 0 <;> by_cases h2 : σ "r.initialized" = 0 <;>
  by_cases h3 : σ "len(r.eofPartitions)" ≥ σ "r.partitionCount" <;>
  minigo_simp [Trans.mrProcessEvent, h, h1, h2, h3] <;> (try omega)

/-- one buffered record at the release: delivered iff it is not an acknowledgement -/
theorem translated_mrInitBufferBody (σ : Env) :
    (obs Trans.mrInitBufferBody σ).calls =
      if σ "wireMsg.Acknowledged" = 0 then [("r.deliverMessage", [σ "wireMsg.Message"])] else [] := by
  by_cases h : σ "wireMsg.Acknowledged" = 0 <;> minigo_simp [Trans.mrInitBufferBody, h]


/-- the receiver's deliverMessage, translated: the subscribers' notifier is called exactly once per message, whatever it
returns (a failing subscriber does not cause a second delivery to the others) -/
theorem translated_mrDeliverMessage (σ : Env) :
    obs Trans.mrDeliverMessage σ = TransExpected.mrDeliverMessage σ := by
  by_cases h : σ "r.notifier#0" = 0 <;> minigo_simp [TransExpected.mrDeliverMessage, Trans.mrDeliverMessage, h]


/-- `for _, wireMsg := range r.initBuffer { body }` (the release of the start-up backlog): the body once per buffered record;
`enc` names messages by integers; the deliveries made, in iteration order -/
def rangeBuffer (body : S) (enc : Msg → Int) : List (Bytes × Wire) → Env → List Int
  | [], _ => []
  | (_, w) :: rest, σ =>
    let r := run body (upd (upd σ "wireMsg.Acknowledged" (if w.ack then 1 else 0)) "wireMsg.Message" (enc w.msg))
    ((r.calls.filter (fun c => c.1 == "r.deliverMessage")).flatMap (·.2)) ++ rangeBuffer body enc rest r.env

/-- **the release loop of processInitBuffer = the model's release**: exactly the buffered records that are not
acknowledgements are delivered, each once, in buffer order -/
theorem translated_release_loop (enc : Msg → Int) (l : List (Bytes × Wire)) : ∀ σ : Env,
    rangeBuffer Trans.mrInitBufferBody enc l σ = (l.filter (fun kw => !kw.2.ack)).map (fun kw => enc kw.2.msg) := by
  induction l with
  | nil => intro σ; rfl
  | cons x rest ih =>
    obtain ⟨k, w⟩ := x
    intro σ
    simp only [rangeBuffer]
    rw [ih]
    have hb := translated_mrInitBufferBody (upd (upd σ "wireMsg.Acknowledged" (if w.ack then 1 else 0)) "wireMsg.Message" (enc w.msg))
    have hc : (run Trans.mrInitBufferBody (upd (upd σ "wireMsg.Acknowledged" (if w.ack then 1 else 0)) "wireMsg.Message" (enc w.msg))).calls =
        (obs Trans.mrInitBufferBody (upd (upd σ "wireMsg.Acknowledged" (if w.ack then 1 else 0)) "wireMsg.Message" (enc w.msg))).calls := rfl
    rw [hc, hb]
    cases hw : w.ack <;> simp [hw]

end Translated

theorem closure_unchanged : GeneratedClo.C10 = ExpectedClo.C10 := by rfl

end Firebolt.C10
