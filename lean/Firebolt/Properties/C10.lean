import Firebolt.Spec.Receiver
/-!
# C10 — Message receiver: catch up first, then deliver exactly the unacked messages

Theorems about `Model/Receiver.lean` for every history of records and end-of-partition signals
(any order, any repetition), any number of partitions.
-/
namespace Firebolt.C10
open Firebolt Firebolt.Receiver

/-- decodable records of a history, oldest first -/
def recs : List Ev → List Wire
  | [] => []
  | .record (some w) :: t => w :: recs t
  | _ :: t => recs t

/-- the most recent record with record key `k` -/
def lastWith (k : Bytes) (h : List Wire) : Option Wire := h.reverse.find? (fun w => ukey w.msg = k)

def bufGet (b : List (Bytes × Wire)) (k : Bytes) : Option Wire :=
  match b with
  | [] => none
  | (k', w) :: rest => if k' = k then some w else bufGet rest k

theorem bufGet_set (b : List (Bytes × Wire)) (k j : Bytes) (w : Wire) :
    bufGet (bufSet b k w) j = if k = j then some w else bufGet b j := by
  induction b with
  | nil => simp [bufSet, bufGet]
  | cons kv rest ih =>
    obtain ⟨k', w'⟩ := kv
    by_cases h1 : k' = k
    · subst h1
      by_cases h2 : k' = j <;> simp [bufSet, bufGet, h2]
    · by_cases h2 : k' = j
      · subst h2
        have : ¬ k = k' := fun e => h1 e.symm
        simp [bufSet, bufGet, h1, this]
      · simp [bufSet, bufGet, h1, h2, ih]

theorem lastWith_snoc (h : List Wire) (w : Wire) (k : Bytes) :
    lastWith k (h ++ [w]) = if ukey w.msg = k then some w else lastWith k h := by
  unfold lastWith; simp [List.reverse_append, List.find?_cons]; split <;> simp_all

/-- each buffered entry sits under its own record key, and keys are unique -/
def BufOk (b : List (Bytes × Wire)) : Prop := ∀ kv ∈ b, kv.1 = ukey kv.2.msg

theorem bufSet_ok (b : List (Bytes × Wire)) (w : Wire) (h : BufOk b) : BufOk (bufSet b (ukey w.msg) w) := by
  induction b with
  | nil => intro kv hkv; simp [bufSet] at hkv; subst hkv; rfl
  | cons x rest ih =>
    obtain ⟨k', w'⟩ := x
    have hrest : BufOk rest := fun kv hkv => h kv (List.mem_cons_of_mem _ hkv)
    by_cases h1 : k' = ukey w.msg
    · intro kv hkv
      simp [bufSet, h1] at hkv
      rcases hkv with rfl | hkv
      · rfl
      · exact hrest kv hkv
    · intro kv hkv
      simp [bufSet, h1] at hkv
      rcases hkv with rfl | hkv
      · exact h (k', w') (List.mem_cons_self ..)
      · exact ih hrest kv hkv

/-- the model never goes back to catching up -/
theorem init_mono (s : St) (e : Ev) (h : s.initialized = true) : (step s e).1.initialized = true := by
  cases e with
  | record w => cases w <;> simp [step, h] <;> split <;> simp [h]
  | eof p => simp [step, h]
  | kerr => simp [step, h]

/-- **nothing is delivered while catching up**, whatever arrives -/
theorem silent_until_caught_up (s : St) (e : Ev) (h : (step s e).1.initialized = false) : (step s e).2 = [] := by
  cases e with
  | record w =>
    cases w with
    | none => simp [step]
    | some w =>
      cases hs : s.initialized with
      | false => simp [step, hs]
      | true => have := init_mono s (.record (some w)) hs; rw [this] at h; cases h
  | eof p =>
    simp only [step] at h ⊢
    generalize addEof s.eofs p = E at h ⊢
    by_cases hc : (!s.initialized && decide (E.length ≥ s.partitionCount)) = true
    · simp [hc] at h
    · simp [hc]
  | kerr => simp [step]

/-- while catching up the buffer holds, per record key, exactly the most recent decodable record of the history -/
structure Pre (s : St) (hist : List Wire) : Prop where
  notInit : s.initialized = false
  ok : BufOk s.buffer
  look : ∀ k, bufGet s.buffer k = lastWith k hist

def evRecs : Ev → List Wire
  | .record (some w) => [w]
  | _ => []

theorem step_pre (s : St) (hist : List Wire) (e : Ev) (hp : Pre s hist)
    (h : (step s e).1.initialized = false) : Pre (step s e).1 (hist ++ evRecs e) := by
  obtain ⟨h0, hok, hl⟩ := hp
  cases e with
  | record w =>
    cases w with
    | none => simpa [step, evRecs] using ⟨h0, hok, hl⟩
    | some w =>
      simp only [step, h0, evRecs]
      refine ⟨by simpa using h0, by simpa using bufSet_ok s.buffer w hok, fun k => ?_⟩
      simp [bufGet_set, lastWith_snoc, hl]
  | eof p =>
    simp only [step] at h ⊢
    generalize addEof s.eofs p = E at h ⊢
    by_cases hc : (!s.initialized && decide (E.length ≥ s.partitionCount)) = true
    · simp [hc] at h
    · simp only [hc]; simpa [evRecs] using ⟨h0, hok, hl⟩
  | kerr => simpa [step, evRecs] using ⟨h0, hok, hl⟩

theorem run_init_mono (es : List Ev) (s : St) (h : (run s es).1.initialized = false) : s.initialized = false := by
  induction es generalizing s with
  | nil => simpa [run] using h
  | cons e es ih =>
    simp only [run] at h
    have := ih (step s e).1 h
    cases hs : s.initialized with
    | false => rfl
    | true => rw [init_mono s e hs] at this; cases this

/-- **catch-up buffer**: for every history, as long as the receiver has not been released, nothing at all was delivered
and the buffer is the latest record per (type, key) -/
theorem catching_up (es : List Ev) (s : St) (hist : List Wire) (hp : Pre s hist)
    (h : (run s es).1.initialized = false) :
    Pre (run s es).1 (hist ++ es.flatMap evRecs) ∧ ∀ d ∈ (run s es).2, d = [] := by
  induction es generalizing s hist with
  | nil => simpa [run] using hp
  | cons e es ih =>
    simp only [run, List.flatMap_cons] at h ⊢
    have h1 : (step s e).1.initialized = false := run_init_mono es _ h
    have hp1 := step_pre s hist e hp h1
    have := ih (step s e).1 (hist ++ evRecs e) hp1 h
    refine ⟨by simpa [List.append_assoc] using this.1, ?_⟩
    intro d hd
    rcases List.mem_cons.1 hd with rfl | hd
    · exact silent_until_caught_up s e h1
    · exact this.2 d hd

/-- **release**: the signal that completes the set of partitions delivers exactly the buffered records that are not
acknowledgements — i.e. (by `catching_up`) the most recent record of every (type, key) unless it is an ack — and
empties the buffer -/
theorem release (s : St) (p : Int) (h0 : s.initialized = false)
    (hall : (addEof s.eofs p).length ≥ s.partitionCount) :
    (step s (.eof p)).1.initialized = true ∧ (step s (.eof p)).1.buffer = [] ∧
    (step s (.eof p)).2 = (s.buffer.filter (fun kw => !kw.2.ack)).map (fun kw => kw.2.msg) := by
  simp only [step, h0]
  simp [hall]

/-- the receiver is released only by an end-of-partition signal that brings the number of *distinct* partitions
seen to the partition count (repeated signals of one partition do not count twice) -/
theorem released_only_when_all (s : St) (e : Ev) (h0 : s.initialized = false) (h1 : (step s e).1.initialized = true) :
    ∃ p, e = .eof p ∧ (addEof s.eofs p).length ≥ s.partitionCount := by
  cases e with
  | record w => cases w <;> simp [step, h0] at h1
  | kerr => simp [step, h0] at h1
  | eof p =>
    refine ⟨p, rfl, ?_⟩
    simp only [step, h0] at h1
    by_cases hc : (addEof s.eofs p).length ≥ s.partitionCount
    · exact hc
    · simp [hc, h0] at h1

/-- the set of partitions seen has no duplicates, so its length is the number of distinct partitions -/
theorem eofs_nodup (s : St) (e : Ev) (h : s.eofs.Nodup) : (step s e).1.eofs.Nodup := by
  cases e with
  | record w =>
    cases w with
    | none => simpa [step] using h
    | some w =>
      simp only [step]
      split
      · simpa using h
      · split <;> simpa using h
  | kerr => simpa [step] using h
  | eof p =>
    simp only [step]
    have hn : (addEof s.eofs p).Nodup := by
      unfold addEof
      split
      · exact h
      · rename_i hc
        refine List.nodup_cons.2 ⟨?_, h⟩
        simpa using hc
    split <;> simpa using hn

/-- **after release**: every new record that is not an acknowledgement is delivered exactly once, at once, unchanged;
acknowledgements and undecodable records deliver nothing; further signals deliver nothing -/
theorem after_release (s : St) (h : s.initialized = true) :
    (∀ w, (step s (.record (some w))).2 = if w.ack then [] else [w.msg]) ∧
    (step s (.record none)).2 = [] ∧ (∀ p, (step s (.eof p)).2 = []) ∧ (step s .kerr).2 = [] := by
  refine ⟨fun w => ?_, by simp [step], fun p => by simp [step, h], by simp [step]⟩
  cases ha : w.ack <;> simp [step, h, ha]

/-- replay start: the low watermark, or exactly 50,000 records before the high watermark; never below the low
watermark, never beyond the high watermark -/
theorem start_offset (low high : Int) (h0 : 0 ≤ low) (h1 : low ≤ high) (h2 : high ≤ 2^62) :
    startOffset low high false = specStart low high ∧ low ≤ startOffset low high false ∧
    startOffset low high false ≤ high ∧ high - startOffset low high false ≤ 50000 := by
  unfold startOffset specStart maxReplay
  have e1 : wrap64 (high - low) = high - low := wrap64_id _ (by omega) (by omega)
  simp only [Bool.false_eq_true, if_false, e1]
  split
  · have e2 : wrap64 (high - 50000) = high - 50000 := wrap64_id _ (by omega) (by omega)
    rw [e2]; omega
  · omega

/-- non-vacuity + the repeated-signal scenario that the unrepaired code got wrong (it counted signals, not partitions) -/
example :
    let m : Msg := ⟨[116], [107], [1]⟩
    let evs : List Ev := [.record (some ⟨m, false⟩), .eof 0, .eof 0, .record (some ⟨m, true⟩), .eof 1]
    (run { partitionCount := 2 } evs).2 = [[], [], [], [], []] ∧ (run { partitionCount := 2 } evs).1.initialized = true := by
  decide

end Firebolt.C10
