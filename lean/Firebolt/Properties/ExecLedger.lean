import Firebolt.Properties.ExecCascade
/-!
# Ledgers of one node under every schedule (C01, C02, C04, C16)

Three inductive invariants of the component model, each preserved by every enabled action:
* `ChanInv`  — every downstream channel: buffer within capacity, FIFO (`enq = deq ++ buf`), every completed send attempt is
  either enqueued or dropped, drops happen only at discarding targets and are counted (C04, C16);
* `EdgeInv`  — per downstream channel and event, in counting form: attempts done + sends still to do (over all workers and
  all asynchronous completions) = events handed to delivery; and what is handed to delivery is exactly, in resolution order,
  the results of passed events for every child and the failed events for the handler (C01, C02);
* `AcctInv`  — input ledger and counters: everything sent upstream is received or still buffered; received = |events handed
  over|; processed / filtered / failed count exactly the resolved events with that outcome (C16).
At quiescence the counting form turns into multiset equality (`List.Perm`), which is the per-edge statement of C01/C02.
-/
namespace Firebolt.Exec

/-! ### channels -/

structure ChanInv (s : St) : Prop where
  cap : ∀ k, (s.outs k).buf.length ≤ (s.outs k).cap ∨ (s.outs k).buf = []
  fifo : ∀ k, s.enq k = s.deq k ++ (s.outs k).buf
  split : ∀ k x, (s.offered k).count x = (s.enq k).count x + (s.dropped k).count x
  nodrop : ∀ k, (s.outs k).discard = false → s.dropped k = []
  counted : ∀ k, s.discarded k = (s.dropped k).length

theorem init_chan (c : Cfg) (caps : Nat → Nat) (disc : Nat → Bool) : ChanInv (init c caps disc) := by
  refine ⟨?_, ?_, ?_, ?_, ?_⟩ <;> simp [init]

/-- exact effect of a send attempt on an open channel -/
theorem trySend_open (s s' : St) (k : Nat) (x : Ev) (hc : (s.outs k).closed = false) (h : trySend s k x = some s') :
    (∀ j, j ≠ k → s'.outs j = s.outs j ∧ s'.offered j = s.offered j ∧ s'.enq j = s.enq j ∧ s'.dropped j = s.dropped j ∧ s'.discarded j = s.discarded j) ∧
    s'.deq = s.deq ∧ s'.offered k = s.offered k ++ [x] ∧ (s'.outs k).discard = (s.outs k).discard ∧ (s'.outs k).cap = (s.outs k).cap ∧
    (((s.outs k).buf.length < (s.outs k).cap ∧ (s'.outs k).buf = (s.outs k).buf ++ [x] ∧ s'.enq k = s.enq k ++ [x] ∧
        s'.dropped k = s.dropped k ∧ s'.discarded k = s.discarded k) ∨
     (¬ (s.outs k).buf.length < (s.outs k).cap ∧ (s.outs k).discard = true ∧ (s'.outs k).buf = (s.outs k).buf ∧ s'.enq k = s.enq k ∧
        s'.dropped k = s.dropped k ++ [x] ∧ s'.discarded k = s.discarded k + 1)) := by
  unfold trySend at h
  simp only [hc, Bool.false_eq_true, if_false] at h
  by_cases hr : (s.outs k).buf.length < (s.outs k).cap
  · simp only [hr, if_true] at h
    cases h
    refine ⟨fun j hj => by simp [upd_other _ _ _ _ hj], rfl, by simp, by simp, by simp, Or.inl ⟨hr, by simp, by simp, rfl, rfl⟩⟩
  · simp only [hr, if_false] at h
    by_cases hd : (s.outs k).discard = true
    · simp only [hd, if_true] at h
      cases h
      refine ⟨fun j hj => by simp [upd_other _ _ _ _ hj], rfl, by simp, rfl, rfl, Or.inr ⟨hr, hd, rfl, rfl, by simp, by simp⟩⟩
    · simp [hd] at h

/-- **a send to a discarding target never blocks**: it is enabled whatever the state of the buffer -/
theorem discard_never_blocks (s : St) (k : Nat) (x : Ev) (hd : (s.outs k).discard = true) : (trySend s k x).isSome = true := by
  unfold trySend
  by_cases hc : (s.outs k).closed = true
  · simp [hc]
  · by_cases hr : (s.outs k).buf.length < (s.outs k).cap <;> simp [hc, hr, hd]

/-- **a non-discarding target never loses**: the attempt either enqueues or is not enabled (the producer waits) -/
theorem backpressure_waits (s s' : St) (k : Nat) (x : Ev) (hc : (s.outs k).closed = false) (hd : (s.outs k).discard = false)
    (h : trySend s k x = some s') : s'.enq k = s.enq k ++ [x] ∧ s'.dropped k = s.dropped k := by
  obtain ⟨_, _, _, _, _, h6⟩ := trySend_open s s' k x hc h
  rcases h6 with ⟨_, _, he, hdr, _⟩ | ⟨_, hdd, _⟩
  · exact ⟨he, hdr⟩
  · rw [hd] at hdd; cases hdd

/-- **a drop happens only at a full buffer** -/
theorem drop_only_when_full (s s' : St) (k : Nat) (x : Ev) (hc : (s.outs k).closed = false) (h : trySend s k x = some s')
    (hdrop : s'.dropped k ≠ s.dropped k) : (s.outs k).cap ≤ (s.outs k).buf.length ∧ (s.outs k).discard = true := by
  obtain ⟨_, _, _, _, _, h6⟩ := trySend_open s s' k x hc h
  rcases h6 with ⟨_, _, _, hdr, _⟩ | ⟨hfull, hdd, _⟩
  · exact absurd hdr hdrop
  · exact ⟨by omega, hdd⟩

theorem chan_of_trySend (s s' : St) (k : Nat) (x : Ev) (hc : (s.outs k).closed = false) (h : ChanInv s)
    (ht : trySend s k x = some s') : ChanInv s' := by
  obtain ⟨t1, t2, t3, t4, t5, t6⟩ := trySend_open s s' k x hc ht
  obtain ⟨c1, c2, c3, c4, c5⟩ := h
  refine ⟨?_, ?_, ?_, ?_, ?_⟩
  · intro j
    by_cases hj : j = k
    · subst hj
      rcases t6 with ⟨hr, hb, _⟩ | ⟨_, _, hb, _⟩
      · left; rw [hb, t5]; simp; omega
      · rw [hb, t5]; exact c1 j
    · rw [(t1 j hj).1]; exact c1 j
  · intro j
    by_cases hj : j = k
    · subst hj
      rcases t6 with ⟨_, hb, he, _⟩ | ⟨_, _, hb, he, _⟩
      · rw [he, hb, t2, c2 j]; simp
      · rw [he, hb, t2]; exact c2 j
    · rw [(t1 j hj).2.2.1, (t1 j hj).1, t2]; exact c2 j
  · intro j y
    by_cases hj : j = k
    · subst hj
      rcases t6 with ⟨_, _, he, hd, _⟩ | ⟨_, _, _, he, hd, _⟩
      · rw [t3, he, hd]; simp [List.count_append, c3 j y]; omega
      · rw [t3, he, hd]; simp [List.count_append, c3 j y]; omega
    · rw [(t1 j hj).2.1, (t1 j hj).2.2.1, (t1 j hj).2.2.2.1]; exact c3 j y
  · intro j hd
    by_cases hj : j = k
    · subst hj
      rw [t4] at hd
      rcases t6 with ⟨_, _, _, hdr, _⟩ | ⟨_, hdd, _⟩
      · rw [hdr]; exact c4 j hd
      · rw [hd] at hdd; cases hdd
    · rw [(t1 j hj).1] at hd; rw [(t1 j hj).2.2.2.1]; exact c4 j hd
  · intro j
    by_cases hj : j = k
    · subst hj
      rcases t6 with ⟨_, _, _, hdr, hdc⟩ | ⟨_, _, _, _, hdr, hdc⟩
      · rw [hdr, hdc]; exact c5 j
      · rw [hdr, hdc, c5 j]; simp
    · rw [(t1 j hj).2.2.2.2, (t1 j hj).2.2.2.1]; exact c5 j

/-- the fields `ChanInv` talks about -/
def chanView (s : St) := (s.outs, s.offered, s.enq, s.dropped, s.deq, s.discarded)

theorem chan_of_view (s s' : St) (h : ChanInv s) (hv : chanView s' = chanView s) : ChanInv s' := by
  simp only [chanView, Prod.mk.injEq] at hv
  obtain ⟨v1, v2, v3, v4, v5, v6⟩ := hv
  obtain ⟨c1, c2, c3, c4, c5⟩ := h
  exact ⟨by rw [v1]; exact c1, by rw [v1, v3, v5]; exact c2, by rw [v2, v3, v4]; exact c3, by rw [v1, v4]; exact c4, by rw [v6, v4]; exact c5⟩

theorem resolve_chanView (c : Cfg) (s : St) (e : Ev) : chanView (resolve c s e) = chanView s := by simp [chanView, resolve]

theorem step_chan (c : Cfg) (s s' : St) (a : Act) (hi : Inv c s) (h : ChanInv s) (hs : step c s a = some s') : ChanInv s' := by
  cases a with
  | upSend e => simp only [step] at hs; split at hs <;> simp at hs; subst hs; exact chan_of_view s _ h rfl
  | upClose => simp only [step] at hs; split at hs <;> simp at hs; subst hs; exact chan_of_view s _ h rfl
  | recv w =>
    simp only [step] at hs; og hs; og hs
    split at hs <;> (cases hs; exact chan_of_view s _ h rfl)
  | procReturn w =>
    simp only [step] at hs; og hs; og hs
    rename_i e _; cases hs
    exact chan_of_view s _ h (by simp [chanView, resolve])
  | complete i =>
    simp only [step] at hs; og hs
    rename_i e _; cases hs
    exact chan_of_view s _ h (by simp [chanView, resolve])
  | send w =>
    simp only [step] at hs; og hs
    rename_i hw; og hs
    rename_i k x todo hpc
    obtain ⟨_, _, _, _, f5⟩ := live_facts c s hi w hw (by simp [hpc, Pc.live])
    cases ht : trySend s k x with
    | none => simp [ht] at hs
    | some s1 =>
      simp [ht] at hs; subst hs
      exact chan_of_view s1 _ (chan_of_trySend s s1 k x (f5 k) h ht) rfl
  | finish w => simp only [step] at hs; og hs; og hs; cases hs; exact chan_of_view s _ h rfl
  | cbSend i =>
    simp only [step] at hs; og hs
    rename_i k x todo he
    have hne : s.cbs ≠ [] := by intro hn; rw [hn] at he; simp at he
    have hcl : (s.outs k).closed = false := by
      cases hc : (s.outs k).closed with
      | false => rfl
      | true => exact absurd (closed_after_shutdown c s hi k hc).2.2.1 hne
    cases ht : trySend s k x with
    | none => simp [ht] at hs
    | some s1 =>
      simp [ht] at hs; subst hs
      exact chan_of_view s1 _ (chan_of_trySend s s1 k x hcl h ht) rfl
  | cbFinish i => simp only [step] at hs; og hs; cases hs; exact chan_of_view s _ h rfl
  | seeClosed w => simp only [step] at hs; og hs; og hs; og hs; cases hs; exact chan_of_view s _ h rfl
  | wgDone w => simp only [step] at hs; og hs; og hs; cases hs; exact chan_of_view s _ h rfl
  | wgWait w => simp only [step] at hs; og hs; og hs; og hs; cases hs; exact chan_of_view s _ h rfl
  | onceEnter w =>
    simp only [step] at hs; og hs; og hs
    split at hs
    · cases hs; exact chan_of_view s _ h rfl
    · og hs; cases hs; exact chan_of_view s _ h rfl
  | shutEnter w => simp only [step] at hs; og hs; og hs; cases hs; exact chan_of_view s _ h rfl
  | shutExit w => simp only [step] at hs; og hs; og hs; og hs; cases hs; exact chan_of_view s _ h rfl
  | closeAll w =>
    simp only [step] at hs; og hs; og hs
    split at hs
    · cases hs; exact chan_of_view s _ h rfl
    · cases hs
      obtain ⟨c1, c2, c3, c4, c5⟩ := h
      refine ⟨?_, ?_, c3, ?_, c5⟩
      · intro k; by_cases hk : k < c.K <;> simp [hk] <;> exact c1 k
      · intro k; by_cases hk : k < c.K <;> simp [hk] <;> exact c2 k
      · intro k; by_cases hk : k < c.K <;> simp [hk] <;> exact c4 k
  | downRecv k =>
    simp only [step] at hs
    split at hs
    · rename_i x rest hb
      cases hs
      obtain ⟨c1, c2, c3, c4, c5⟩ := h
      refine ⟨?_, ?_, c3, ?_, c5⟩
      · intro j
        by_cases hj : j = k
        · subst hj
          rcases c1 j with h1 | h1
          · left; simp; rw [hb] at h1; simp at h1; omega
          · rw [hb] at h1; cases h1
        · simp [upd_other _ _ _ _ hj]; exact c1 j
      · intro j
        by_cases hj : j = k
        · subst hj; simp; rw [c2 j, hb]
        · simp [upd_other _ _ _ _ hj]; exact c2 j
      · intro j hd
        by_cases hj : j = k
        · subst hj; simp at hd; exact c4 j hd
        · simp [upd_other _ _ _ _ hj] at hd; exact c4 j hd
    · simp at hs

end Firebolt.Exec

namespace Firebolt.Exec

/-! ### edges, in counting form -/

def todoCount (k : Nat) (x : Ev) : Pc → Nat
  | .deliver todo => todo.count (k, x)
  | _ => 0

def procCount (x : Ev) : Pc → Nat
  | .proc e => if e = x then 1 else 0
  | _ => 0

def sumPc (W : Nat) (pc : Nat → Pc) (g : Pc → Nat) : Nat :=
  match W with
  | 0 => 0
  | W + 1 => sumPc W pc g + g (pc W)

theorem sumPc_upd_ge (W : Nat) (pc : Nat → Pc) (g : Pc → Nat) (w : Nat) (v : Pc) (h : W ≤ w) :
    sumPc W (upd pc w v) g = sumPc W pc g := by
  induction W with
  | zero => rfl
  | succ W ih => simp only [sumPc]; rw [ih (by omega), upd_other _ _ _ _ (by omega : W ≠ w)]

theorem sumPc_upd (W : Nat) (pc : Nat → Pc) (g : Pc → Nat) (w : Nat) (v : Pc) (h : w < W) :
    sumPc W (upd pc w v) g + g (pc w) = sumPc W pc g + g v := by
  induction W with
  | zero => omega
  | succ W ih =>
    simp only [sumPc]
    by_cases hw : w = W
    · subst hw; rw [sumPc_upd_ge _ _ _ _ _ (Nat.le_refl _)]; simp; omega
    · have := ih (by omega); rw [upd_other _ _ _ _ (fun h => hw h.symm)]; omega

theorem sumPc_zero (W : Nat) (pc : Nat → Pc) (g : Pc → Nat) (h : ∀ w, w < W → g (pc w) = 0) : sumPc W pc g = 0 := by
  induction W with
  | zero => rfl
  | succ W ih => simp only [sumPc]; rw [ih (fun w hw => h w (by omega)), h W (by omega)]

def cbsCount (k : Nat) (x : Ev) (cbs : List (List (Nat × Ev))) : Nat := (cbs.map (fun t => t.count (k, x))).sum

theorem cbsCount_append (k : Nat) (x : Ev) (cbs : List (List (Nat × Ev))) (t : List (Nat × Ev)) :
    cbsCount k x (cbs ++ [t]) = cbsCount k x cbs + t.count (k, x) := by
  simp [cbsCount]

theorem cbsCount_set (k : Nat) (x : Ev) (cbs : List (List (Nat × Ev))) (i : Nat) (y : Nat × Ev) (todo : List (Nat × Ev))
    (h : cbs[i]? = some (y :: todo)) :
    cbsCount k x (cbs.set i todo) + (if y = (k, x) then 1 else 0) = cbsCount k x cbs := by
  induction cbs generalizing i with
  | nil => simp at h
  | cons t ts ih =>
    cases i with
    | zero =>
      simp at h; subst h
      simp only [List.set_cons_zero, cbsCount, List.map_cons, List.sum_cons, List.count_cons]
      by_cases hy : y = (k, x) <;> simp [hy] <;> omega
    | succ i =>
      simp at h
      have := ih i h
      simp only [List.set_cons_succ, cbsCount, List.map_cons, List.sum_cons] at this ⊢
      omega

theorem cbsCount_erase_nil (k : Nat) (x : Ev) (cbs : List (List (Nat × Ev))) (i : Nat) (h : cbs[i]? = some []) :
    cbsCount k x (cbs.eraseIdx i) = cbsCount k x cbs := by
  induction cbs generalizing i with
  | nil => simp at h
  | cons t ts ih =>
    cases i with
    | zero => simp at h; subst h; simp [cbsCount]
    | succ i =>
      simp at h
      have := ih i h
      simp only [List.eraseIdx_cons_succ, cbsCount, List.map_cons, List.sum_cons] at this ⊢
      omega

/-- the part of a to-do list that goes to channel `k` -/
def slice (k : Nat) (todo : List (Nat × Ev)) : List Ev := (todo.filter (fun y => y.1 = k)).map (·.2)

theorem slice_count (k : Nat) (x : Ev) (todo : List (Nat × Ev)) : (slice k todo).count x = todo.count (k, x) := by
  induction todo with
  | nil => simp [slice]
  | cons y ys ih =>
    obtain ⟨k', x'⟩ := y
    simp only [slice, List.filter_cons] at ih ⊢
    by_cases hk : k' = k
    · subst hk
      simp only [decide_true, if_true, List.map_cons, List.count_cons, ih]
      by_cases hx : x' = x <;> simp [hx]
    · have : ((k', x') == (k, x)) = false := by simp [hk]
      simp [hk, List.count_cons, this, ih]

structure EdgeInv (c : Cfg) (s : St) : Prop where
  edge : ∀ k x, (s.offered k).count x + sumPc c.W s.pc (todoCount k x) + cbsCount k x s.cbs = (s.produced k).count x
  prod : ∀ k, s.produced k = s.resolved.flatMap (fun e => slice k (todoOf c e (c.oracle e)))

theorem init_edge (c : Cfg) (caps : Nat → Nat) (disc : Nat → Bool) : EdgeInv c (init c caps disc) := by
  refine ⟨?_, ?_⟩
  · intro k x
    have : sumPc c.W (init c caps disc).pc (todoCount k x) = 0 := sumPc_zero _ _ _ (fun w _ => by simp [init, todoCount])
    simp [this]; simp [init, cbsCount]
  · intro k; simp [init]

/-- the fields `EdgeInv` talks about -/
theorem edge_of_view (c : Cfg) (s s' : St) (h : EdgeInv c s)
    (h1 : s'.offered = s.offered) (h2 : ∀ k x, sumPc c.W s'.pc (todoCount k x) = sumPc c.W s.pc (todoCount k x))
    (h3 : s'.cbs = s.cbs) (h4 : s'.produced = s.produced) (h5 : s'.resolved = s.resolved) : EdgeInv c s' := by
  obtain ⟨e1, e2⟩ := h
  exact ⟨by intro k x; rw [h1, h2, h3, h4]; exact e1 k x, by intro k; rw [h4, h5]; exact e2 k⟩

/-- moving a worker between two states that carry no to-do list leaves every sum unchanged -/
theorem sum_of_quiet_move (W : Nat) (pc : Nat → Pc) (w : Nat) (v : Pc) (hw : w < W) (k : Nat) (x : Ev)
    (h1 : todoCount k x (pc w) = 0) (h2 : todoCount k x v = 0) :
    sumPc W (upd pc w v) (todoCount k x) = sumPc W pc (todoCount k x) := by
  have := sumPc_upd W pc (todoCount k x) w v hw; omega

theorem resolve_edge (c : Cfg) (s : St) (e : Ev) :
    (∀ k x, ((resolve c s e).produced k).count x = (s.produced k).count x + (todoOf c e (c.oracle e)).count (k, x)) ∧
    (∀ k, (resolve c s e).produced k = s.produced k ++ slice k (todoOf c e (c.oracle e))) ∧
    (resolve c s e).resolved = s.resolved ++ [e] ∧ (resolve c s e).offered = s.offered ∧ (resolve c s e).cbs = s.cbs ∧
    (resolve c s e).pc = s.pc := by
  refine ⟨?_, ?_, by simp [resolve], by simp [resolve], by simp [resolve], by simp [resolve]⟩
  · intro k x; simp [resolve, addProduced, List.count_append]; exact slice_count k x _
  · intro k; simp [resolve, addProduced, slice]

theorem edge_of_trySend (c : Cfg) (s s' : St) (k : Nat) (x : Ev) (hc : (s.outs k).closed = false) (ht : trySend s k x = some s') :
    (∀ j y, (s'.offered j).count y = (s.offered j).count y + (if (j, y) = (k, x) then 1 else 0)) ∧
    s'.produced = s.produced ∧ s'.resolved = s.resolved ∧ s'.cbs = s.cbs ∧ s'.pc = s.pc := by
  obtain ⟨t1, _, t3, _, _, _⟩ := trySend_open s s' k x hc ht
  have hrest : s'.produced = s.produced ∧ s'.resolved = s.resolved ∧ s'.cbs = s.cbs ∧ s'.pc = s.pc := by
    unfold trySend at ht
    simp only [hc, Bool.false_eq_true, if_false] at ht
    split at ht
    · cases ht; exact ⟨rfl, rfl, rfl, rfl⟩
    · split at ht
      · cases ht; exact ⟨rfl, rfl, rfl, rfl⟩
      · simp at ht
  refine ⟨?_, hrest⟩
  intro j y
  by_cases hj : j = k
  · subst hj
    rw [t3, List.count_append]
    by_cases hy : y = x
    · subst hy; simp
    · have : ¬ (j, y) = (j, x) := by simp [hy]
      have h2 : ¬ x = y := fun e => hy e.symm
      simp [this, List.count_cons, h2]
  · have : ¬ (j, y) = (k, x) := by simp [hj]
    rw [(t1 j hj).2.1]; simp [this]

theorem step_edge (c : Cfg) (s s' : St) (a : Act) (hi : Inv c s) (h : EdgeInv c s) (hs : step c s a = some s') : EdgeInv c s' := by
  cases a with
  | upSend e => simp only [step] at hs; split at hs <;> simp at hs; subst hs; exact edge_of_view c s _ h rfl (fun _ _ => rfl) rfl rfl rfl
  | upClose => simp only [step] at hs; split at hs <;> simp at hs; subst hs; exact edge_of_view c s _ h rfl (fun _ _ => rfl) rfl rfl rfl
  | recv w =>
    simp only [step] at hs; og hs
    rename_i hw; og hs
    rename_i e rest hpc _
    split at hs
    · cases hs; exact edge_of_view c s _ h rfl (fun _ _ => rfl) rfl rfl rfl
    · cases hs
      exact edge_of_view c s _ h rfl (fun k x => sum_of_quiet_move c.W s.pc w _ hw k x (by simp [hpc, todoCount]) (by simp [todoCount])) rfl rfl rfl
  | procReturn w =>
    simp only [step] at hs; og hs
    rename_i hw; og hs
    rename_i e hpc; cases hs
    obtain ⟨r1, r2, r3, r4, r5, r6⟩ := resolve_edge c s e
    obtain ⟨e1, e2⟩ := h
    refine ⟨?_, ?_⟩
    · intro k x
      have hm := sumPc_upd c.W s.pc (todoCount k x) w (.deliver (todoOf c e (c.oracle e))) hw
      simp only [hpc, todoCount] at hm
      have := e1 k x
      simp only [r4, r5, r6, r1] at *
      omega
    · intro k; simp only [r2, r3, List.flatMap_append, e2 k]; simp
  | complete i =>
    simp only [step] at hs; og hs
    rename_i e he; cases hs
    obtain ⟨r1, r2, r3, r4, r5, r6⟩ := resolve_edge c s e
    obtain ⟨e1, e2⟩ := h
    refine ⟨?_, ?_⟩
    · intro k x
      have := e1 k x
      simp only [r4, r5, r6, r1, cbsCount_append] at *
      omega
    · intro k; simp only [r2, r3, List.flatMap_append, e2 k]; simp
  | send w =>
    simp only [step] at hs; og hs
    rename_i hw; og hs
    rename_i k x todo hpc
    obtain ⟨_, _, _, _, f5⟩ := live_facts c s hi w hw (by simp [hpc, Pc.live])
    cases ht : trySend s k x with
    | none => simp [ht] at hs
    | some s1 =>
      simp [ht] at hs; subst hs
      obtain ⟨t1, t2, t3, t4, t5⟩ := edge_of_trySend c s s1 k x (f5 k) ht
      obtain ⟨e1, e2⟩ := h
      refine ⟨?_, by intro j; simp only [t2, t3]; exact e2 j⟩
      intro j y
      have hm := sumPc_upd c.W s.pc (todoCount j y) w (.deliver todo) hw
      simp only [hpc, todoCount, List.count_cons] at hm
      have := e1 j y
      have ht1 := t1 j y
      simp only [t5, t4, t2] at *
      by_cases hjy : (j, y) = (k, x)
      · obtain ⟨rfl, rfl⟩ := Prod.mk.inj hjy
        simp at ht1 hm
        omega
      · have hb : ((k, x) == (j, y)) = false := by
          simp; intro h1 h2; exact hjy (by rw [h1, h2])
        simp [hjy] at ht1; simp [hb] at hm; omega
  | finish w =>
    simp only [step] at hs; og hs
    rename_i hw; og hs
    rename_i hpc; cases hs
    exact edge_of_view c s _ h rfl (fun k x => sum_of_quiet_move c.W s.pc w _ hw k x (by simp [hpc, todoCount]) (by simp [todoCount])) rfl rfl rfl
  | cbSend i =>
    simp only [step] at hs; og hs
    rename_i k x todo he
    have hne : s.cbs ≠ [] := by intro hn; rw [hn] at he; simp at he
    have hcl : (s.outs k).closed = false := by
      cases hc : (s.outs k).closed with
      | false => rfl
      | true => exact absurd (closed_after_shutdown c s hi k hc).2.2.1 hne
    cases ht : trySend s k x with
    | none => simp [ht] at hs
    | some s1 =>
      simp [ht] at hs; subst hs
      obtain ⟨t1, t2, t3, t4, t5⟩ := edge_of_trySend c s s1 k x hcl ht
      obtain ⟨e1, e2⟩ := h
      refine ⟨?_, by intro j; simp only [t2, t3]; exact e2 j⟩
      intro j y
      have hm := cbsCount_set j y s.cbs i (k, x) todo he
      have := e1 j y
      have ht1 := t1 j y
      simp only [setCb, t5, t4, t2] at *
      by_cases hjy : (j, y) = (k, x)
      · obtain ⟨rfl, rfl⟩ := Prod.mk.inj hjy
        simp at ht1 hm
        omega
      · have hb : ¬ (k, x) = (j, y) := fun e => hjy e.symm
        simp [hjy] at ht1; simp [hb] at hm; omega
  | cbFinish i =>
    simp only [step] at hs; og hs
    rename_i he; cases hs
    obtain ⟨e1, e2⟩ := h
    exact ⟨by intro k x; have := e1 k x; simp only [cbsCount_erase_nil k x s.cbs i he]; exact this, e2⟩
  | seeClosed w =>
    simp only [step] at hs; og hs
    rename_i hw; og hs
    rename_i hpc _; og hs; cases hs
    exact edge_of_view c s _ h rfl (fun k x => sum_of_quiet_move c.W s.pc w _ hw k x (by simp [hpc, todoCount]) (by simp [todoCount])) rfl rfl rfl
  | wgDone w =>
    simp only [step] at hs; og hs
    rename_i hw; og hs
    rename_i hpc; cases hs
    exact edge_of_view c s _ h rfl (fun k x => sum_of_quiet_move c.W s.pc w _ hw k x (by simp [hpc, todoCount]) (by simp [todoCount])) rfl rfl rfl
  | wgWait w =>
    simp only [step] at hs; og hs
    rename_i hw; og hs
    rename_i hpc; og hs; cases hs
    exact edge_of_view c s _ h rfl (fun k x => sum_of_quiet_move c.W s.pc w _ hw k x (by simp [hpc, todoCount]) (by simp [todoCount])) rfl rfl rfl
  | onceEnter w =>
    simp only [step] at hs; og hs
    rename_i hw; og hs
    rename_i hpc
    split at hs
    · cases hs
      exact edge_of_view c s _ h rfl (fun k x => sum_of_quiet_move c.W s.pc w _ hw k x (by simp [hpc, todoCount]) (by simp [todoCount])) rfl rfl rfl
    · og hs; cases hs
      exact edge_of_view c s _ h rfl (fun k x => sum_of_quiet_move c.W s.pc w _ hw k x (by simp [hpc, todoCount]) (by simp [todoCount])) rfl rfl rfl
  | shutEnter w =>
    simp only [step] at hs; og hs
    rename_i hw; og hs
    rename_i hpc; cases hs
    exact edge_of_view c s _ h rfl (fun k x => sum_of_quiet_move c.W s.pc w _ hw k x (by simp [hpc, todoCount]) (by simp [todoCount])) rfl rfl rfl
  | shutExit w =>
    simp only [step] at hs; og hs
    rename_i hw; og hs
    rename_i hpc; og hs; cases hs
    exact edge_of_view c s _ h rfl (fun k x => sum_of_quiet_move c.W s.pc w _ hw k x (by simp [hpc, todoCount]) (by simp [todoCount])) rfl rfl rfl
  | closeAll w =>
    simp only [step] at hs; og hs
    rename_i hw; og hs
    rename_i hpc
    split at hs
    · cases hs; exact edge_of_view c s _ h rfl (fun _ _ => rfl) rfl rfl rfl
    · cases hs
      exact edge_of_view c s _ h rfl (fun k x => sum_of_quiet_move c.W s.pc w _ hw k x (by simp [hpc, todoCount]) (by simp [todoCount])) rfl rfl rfl
  | downRecv k =>
    simp only [step] at hs
    split at hs
    · cases hs; exact edge_of_view c s _ h rfl (fun _ _ => rfl) rfl rfl rfl
    · simp at hs

end Firebolt.Exec

namespace Firebolt.Exec

/-! ### input ledger and counters -/

structure AcctInv (c : Cfg) (s : St) : Prop where
  input : s.upSent = s.recvd ++ s.inp
  recv : s.received = s.recvd.length
  balx : ∀ x, s.recvd.count x = s.resolved.count x + sumPc c.W s.pc (procCount x) + s.pending.count x
  proc : s.processed = (s.resolved.filter (passB c)).length
  filt : s.filtered = (s.resolved.filter (filterB c)).length
  fail : s.failed = (s.resolved.filter (errorB c)).length

theorem init_acct (c : Cfg) (caps : Nat → Nat) (disc : Nat → Bool) : AcctInv c (init c caps disc) := by
  refine ⟨by simp [init], by simp [init], ?_, by simp [init], by simp [init], by simp [init]⟩
  intro x
  have : sumPc c.W (init c caps disc).pc (procCount x) = 0 := sumPc_zero _ _ _ (fun w _ => by simp [init, procCount])
  simp [this]; simp [init]

theorem count_eraseIdx (l : List Ev) (i : Nat) (e x : Ev) (h : l[i]? = some e) :
    (l.eraseIdx i).count x + (if e = x then 1 else 0) = l.count x := by
  induction l generalizing i with
  | nil => simp at h
  | cons a t ih =>
    cases i with
    | zero =>
      simp at h; subst h
      simp only [List.eraseIdx_cons_zero, List.count_cons]
      by_cases hx : a = x <;> simp [hx]
    | succ i =>
      simp at h
      have := ih i h
      simp only [List.eraseIdx_cons_succ, List.count_cons] at this ⊢
      omega

theorem acct_of_view (c : Cfg) (s s' : St) (h : AcctInv c s)
    (h1 : s'.upSent = s.upSent) (h2 : s'.recvd = s.recvd) (h3 : s'.inp = s.inp) (h4 : s'.received = s.received)
    (h5 : s'.resolved = s.resolved) (h6 : ∀ x, sumPc c.W s'.pc (procCount x) = sumPc c.W s.pc (procCount x))
    (h7 : s'.pending = s.pending) (h8 : s'.processed = s.processed) (h9 : s'.filtered = s.filtered) (h10 : s'.failed = s.failed) :
    AcctInv c s' := by
  obtain ⟨a1, a2, a3, a4, a5, a6⟩ := h
  exact ⟨by rw [h1, h2, h3]; exact a1, by rw [h4, h2]; exact a2, by intro x; rw [h2, h5, h6, h7]; exact a3 x,
         by rw [h8, h5]; exact a4, by rw [h9, h5]; exact a5, by rw [h10, h5]; exact a6⟩

theorem psum_of_quiet_move (W : Nat) (pc : Nat → Pc) (w : Nat) (v : Pc) (hw : w < W) (x : Ev)
    (h1 : procCount x (pc w) = 0) (h2 : procCount x v = 0) :
    sumPc W (upd pc w v) (procCount x) = sumPc W pc (procCount x) := by
  have := sumPc_upd W pc (procCount x) w v hw; omega

theorem trySend_acct (s s' : St) (k : Nat) (x : Ev) (ht : trySend s k x = some s') :
    s'.upSent = s.upSent ∧ s'.recvd = s.recvd ∧ s'.inp = s.inp ∧ s'.received = s.received ∧ s'.resolved = s.resolved ∧
    s'.pc = s.pc ∧ s'.pending = s.pending ∧ s'.processed = s.processed ∧ s'.filtered = s.filtered ∧ s'.failed = s.failed := by
  unfold trySend at ht
  by_cases hc : (s.outs k).closed = true
  · simp [hc] at ht; subst ht; simp
  · by_cases hr : (s.outs k).buf.length < (s.outs k).cap
    · simp [hc, hr] at ht; subst ht; simp
    · by_cases hd : (s.outs k).discard = true
      · simp [hc, hr, hd] at ht; subst ht; simp
      · simp [hc, hr, hd] at ht

theorem resolve_acct (c : Cfg) (s : St) (e : Ev) :
    (resolve c s e).upSent = s.upSent ∧ (resolve c s e).recvd = s.recvd ∧ (resolve c s e).inp = s.inp ∧
    (resolve c s e).received = s.received ∧ (resolve c s e).resolved = s.resolved ++ [e] ∧ (resolve c s e).pc = s.pc ∧
    (resolve c s e).pending = s.pending ∧
    (resolve c s e).processed = s.processed + (if passB c e then 1 else 0) ∧
    (resolve c s e).filtered = s.filtered + (if filterB c e then 1 else 0) ∧
    (resolve c s e).failed = s.failed + (if errorB c e then 1 else 0) := by
  exact ⟨rfl, rfl, rfl, rfl, rfl, rfl, rfl, rfl, rfl, rfl⟩

theorem acct_resolved (c : Cfg) (s : St) (e : Ev) (h : AcctInv c s) :
    (resolve c s e).processed = (((resolve c s e).resolved).filter (passB c)).length ∧
    (resolve c s e).filtered = (((resolve c s e).resolved).filter (filterB c)).length ∧
    (resolve c s e).failed = (((resolve c s e).resolved).filter (errorB c)).length := by
  obtain ⟨_, _, _, _, r5, _, _, r8, r9, r10⟩ := resolve_acct c s e
  rw [r5, r8, r9, r10, h.proc, h.filt, h.fail]
  simp only [List.filter_append, List.length_append, List.filter_cons, List.filter_nil]
  refine ⟨?_, ?_, ?_⟩ <;> split <;> simp

theorem step_acct (c : Cfg) (s s' : St) (a : Act) (h : AcctInv c s) (hs : step c s a = some s') : AcctInv c s' := by
  cases a with
  | upSend e =>
    simp only [step] at hs; split at hs <;> simp at hs; subst hs
    obtain ⟨a1, a2, a3, a4, a5, a6⟩ := h
    exact ⟨by simp [a1], a2, a3, a4, a5, a6⟩
  | upClose =>
    simp only [step] at hs; split at hs <;> simp at hs; subst hs
    exact acct_of_view c s _ h rfl rfl rfl rfl rfl (fun _ => rfl) rfl rfl rfl rfl
  | recv w =>
    simp only [step] at hs; og hs
    rename_i hw; og hs
    rename_i e rest hpc hinp
    obtain ⟨a1, a2, a3, a4, a5, a6⟩ := h
    split at hs
    · cases hs
      refine ⟨by simp [a1, hinp], by simp [a2], ?_, a4, a5, a6⟩
      intro x; have := a3 x; simp [List.count_append]; omega
    · cases hs
      refine ⟨by simp [a1, hinp], by simp [a2], ?_, a4, a5, a6⟩
      intro x
      have hm := sumPc_upd c.W s.pc (procCount x) w (.proc e) hw
      simp only [hpc, procCount] at hm
      have := a3 x
      simp only [List.count_append, List.count_cons, List.count_nil]
      by_cases hx : e = x <;> simp [hx] at hm ⊢ <;> omega
  | procReturn w =>
    simp only [step] at hs; og hs
    rename_i hw; og hs
    rename_i e hpc; cases hs
    obtain ⟨r1, r2, r3, r4, r5, r6, r7, r8, r9, r10⟩ := resolve_acct c s e
    obtain ⟨p1, p2, p3⟩ := acct_resolved c s e h
    obtain ⟨a1, a2, a3, a4, a5, a6⟩ := h
    refine ⟨by simp [r1, r2, r3, a1], by simp [r4, r2, a2], ?_, by simpa using p1, by simpa using p2, by simpa using p3⟩
    intro x
    have hm := sumPc_upd c.W s.pc (procCount x) w (.deliver (todoOf c e (c.oracle e))) hw
    simp only [hpc, procCount] at hm
    have := a3 x
    simp only [r2, r5, r7, List.count_append, List.count_cons, List.count_nil]
    by_cases hx : e = x <;> simp [hx] at hm ⊢ <;> omega
  | complete i =>
    simp only [step] at hs; og hs
    rename_i e he; cases hs
    obtain ⟨r1, r2, r3, r4, r5, r6, r7, r8, r9, r10⟩ := resolve_acct c s e
    obtain ⟨p1, p2, p3⟩ := acct_resolved c s e h
    obtain ⟨a1, a2, a3, a4, a5, a6⟩ := h
    refine ⟨by simp [r1, r2, r3, a1], by simp [r4, r2, a2], ?_, by simpa using p1, by simpa using p2, by simpa using p3⟩
    intro x
    have hc := count_eraseIdx s.pending i e x he
    have := a3 x
    simp only [r2, r5, r6, List.count_append, List.count_cons, List.count_nil]
    by_cases hx : e = x <;> simp [hx] at hc ⊢ <;> omega
  | send w =>
    simp only [step] at hs; og hs
    rename_i hw; og hs
    rename_i k x todo hpc
    cases ht : trySend s k x with
    | none => simp [ht] at hs
    | some s1 =>
      simp [ht] at hs; subst hs
      obtain ⟨t1, t2, t3, t4, t5, t6, t7, t8, t9, t10⟩ := trySend_acct s s1 k x ht
      exact acct_of_view c s _ h t1 t2 t3 t4 t5
        (fun y => by simp only [t6]; exact psum_of_quiet_move c.W s.pc w _ hw y (by simp [hpc, procCount]) (by simp [procCount])) t7 t8 t9 t10
  | finish w =>
    simp only [step] at hs; og hs
    rename_i hw; og hs
    rename_i hpc; cases hs
    exact acct_of_view c s _ h rfl rfl rfl rfl rfl (fun y => psum_of_quiet_move c.W s.pc w _ hw y (by simp [hpc, procCount]) (by simp [procCount])) rfl rfl rfl rfl
  | cbSend i =>
    simp only [step] at hs; og hs
    rename_i k x todo he
    cases ht : trySend s k x with
    | none => simp [ht] at hs
    | some s1 =>
      simp [ht] at hs; subst hs
      obtain ⟨t1, t2, t3, t4, t5, t6, t7, t8, t9, t10⟩ := trySend_acct s s1 k x ht
      exact acct_of_view c s _ h t1 t2 t3 t4 t5 (fun y => by simp only [t6]) t7 t8 t9 t10
  | cbFinish i => simp only [step] at hs; og hs; cases hs; exact acct_of_view c s _ h rfl rfl rfl rfl rfl (fun _ => rfl) rfl rfl rfl rfl
  | seeClosed w =>
    simp only [step] at hs; og hs
    rename_i hw; og hs
    rename_i hpc _; og hs; cases hs
    exact acct_of_view c s _ h rfl rfl rfl rfl rfl (fun y => psum_of_quiet_move c.W s.pc w _ hw y (by simp [hpc, procCount]) (by simp [procCount])) rfl rfl rfl rfl
  | wgDone w =>
    simp only [step] at hs; og hs
    rename_i hw; og hs
    rename_i hpc; cases hs
    exact acct_of_view c s _ h rfl rfl rfl rfl rfl (fun y => psum_of_quiet_move c.W s.pc w _ hw y (by simp [hpc, procCount]) (by simp [procCount])) rfl rfl rfl rfl
  | wgWait w =>
    simp only [step] at hs; og hs
    rename_i hw; og hs
    rename_i hpc; og hs; cases hs
    exact acct_of_view c s _ h rfl rfl rfl rfl rfl (fun y => psum_of_quiet_move c.W s.pc w _ hw y (by simp [hpc, procCount]) (by simp [procCount])) rfl rfl rfl rfl
  | onceEnter w =>
    simp only [step] at hs; og hs
    rename_i hw; og hs
    rename_i hpc
    split at hs
    · cases hs
      exact acct_of_view c s _ h rfl rfl rfl rfl rfl (fun y => psum_of_quiet_move c.W s.pc w _ hw y (by simp [hpc, procCount]) (by simp [procCount])) rfl rfl rfl rfl
    · og hs; cases hs
      exact acct_of_view c s _ h rfl rfl rfl rfl rfl (fun y => psum_of_quiet_move c.W s.pc w _ hw y (by simp [hpc, procCount]) (by simp [procCount])) rfl rfl rfl rfl
  | shutEnter w =>
    simp only [step] at hs; og hs
    rename_i hw; og hs
    rename_i hpc; cases hs
    exact acct_of_view c s _ h rfl rfl rfl rfl rfl (fun y => psum_of_quiet_move c.W s.pc w _ hw y (by simp [hpc, procCount]) (by simp [procCount])) rfl rfl rfl rfl
  | shutExit w =>
    simp only [step] at hs; og hs
    rename_i hw; og hs
    rename_i hpc; og hs; cases hs
    exact acct_of_view c s _ h rfl rfl rfl rfl rfl (fun y => psum_of_quiet_move c.W s.pc w _ hw y (by simp [hpc, procCount]) (by simp [procCount])) rfl rfl rfl rfl
  | closeAll w =>
    simp only [step] at hs; og hs
    rename_i hw; og hs
    rename_i hpc
    split at hs
    · cases hs; exact acct_of_view c s _ h rfl rfl rfl rfl rfl (fun _ => rfl) rfl rfl rfl rfl
    · cases hs
      exact acct_of_view c s _ h rfl rfl rfl rfl rfl (fun y => psum_of_quiet_move c.W s.pc w _ hw y (by simp [hpc, procCount]) (by simp [procCount])) rfl rfl rfl rfl
  | downRecv k =>
    simp only [step] at hs
    split at hs
    · cases hs; exact acct_of_view c s _ h rfl rfl rfl rfl rfl (fun _ => rfl) rfl rfl rfl rfl
    · simp at hs

end Firebolt.Exec
