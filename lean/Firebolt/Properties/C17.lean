import Firebolt.TransExpected
import Firebolt.Properties.TransBase
import Firebolt.Model.MainLoop
import Firebolt.Generated.Skeleton
import Firebolt.Expected.Skeleton
import Firebolt.Generated.Source
import Firebolt.Expected.Source
import Firebolt.Generated.Closure
import Firebolt.Expected.Closure
/-!
# C17 — Shutdown is bounded by the configured timeout even if nodes never finish

Logic (proved): once the main goroutine has closed the roots, its return depends on the timer alone — whatever the workers do
or fail to do; if all workers finish it returns without waiting for the timer.  The clause "including stalls that have already
filled every buffer back to the source" is FALSE for the code as it stands (known finding F6): a main goroutine blocked on a
full root buffer never reaches the bounded wait.  Seconds are measured on the real code by the harness (runtime part).
-/
namespace Firebolt.C17
open Firebolt Firebolt.MainLoop

/-- **the timer alone decides**: from `waiting`, whatever the environment is (any stalled workers, any buffers), the timer
action is enabled and two own steps of the main goroutine reach `done`; none of them can block -/
theorem timer_independent (s : St) (h : s.pc = .waiting) :
    ∃ s1 s2, step s .timer = some s1 ∧ step s1 .stopAll = some s2 ∧ s2.pc = .done := by
  refine ⟨{ s with pc := .stopping, timedOut := true }, { s with pc := .done, timedOut := true }, ?_, ?_, rfl⟩
  · simp [step, h]
  · simp [step]

/-- the environment cannot disable the timer: interleaving any environment changes keeps the main goroutine in `waiting` -/
theorem env_keeps_waiting (s : St) (r : Nat → Bool) (z : Bool) (h : s.pc = .waiting) :
    ∃ s', step s (.env r z) = some s' ∧ s'.pc = .waiting := ⟨_, rfl, h⟩

/-- **prompt return**: when every worker has exited, `Execute` returns without waiting for the timer -/
theorem prompt_when_all_done (s : St) (h : s.pc = .waiting) (hz : s.wgZero = true) :
    ∃ s', step s .waitDone = some s' ∧ s'.pc = .done ∧ s'.timedOut = s.timedOut := by
  refine ⟨{ s with pc := .done }, ?_, rfl, rfl⟩
  simp [step, h, hz]

/-- once the source channel is closed and the main goroutine is reading, it reaches the bounded wait in two own steps
(closing the roots never blocks) -/
theorem reaches_wait (s : St) (h : s.pc = .reading) :
    ∃ s1 s2, step s .srcClosed = some s1 ∧ step s1 .closeRoots = some s2 ∧ s2.pc = .waiting := by
  refine ⟨{ s with pc := .closing }, { s with pc := .waiting }, ?_, ?_, rfl⟩
  · simp [step, h]
  · simp [step]

/-- **the finding (F6)**: a main goroutine that is delivering an event to a root whose buffer stays full (its worker is
stalled, the root does not discard) can take no step at all — in particular it never reaches the bounded wait, whatever
happens to the source and to the timer -/
theorem blocked_main_never_returns (s : St) (i : Nat) (h : s.pc = .sending i) (hfull : s.room i = false) :
    ∀ a, (∀ r z, a ≠ .env r z) → step s a = none := by
  intro a hne
  cases a with
  | srcEvent => simp [step, h]
  | srcClosed => simp [step, h]
  | sendRoot => simp [step, h, hfull]
  | closeRoots => simp [step, h]
  | waitDone => simp [step, h]
  | timer => simp [step, h]
  | stopAll => simp [step, h]
  | env r z => exact absurd rfl (hne r z)

/-- … and as long as the environment keeps that buffer full, this stays so forever -/
theorem blocked_main_stays_blocked (s : St) (i : Nat) (h : s.pc = .sending i) (as : List Act)
    (henv : ∀ a ∈ as, ∃ r z, a = .env r z ∧ r i = false) (hfull : s.room i = false) :
    ∃ s', run s as = some s' ∧ s'.pc = .sending i ∧ s'.room i = false := by
  induction as generalizing s with
  | nil => exact ⟨s, rfl, h, hfull⟩
  | cons a as ih =>
    obtain ⟨r, z, ha, hr⟩ := henv a (List.mem_cons_self ..)
    subst ha
    simp only [run, step]
    exact ih { s with room := r, wgZero := z } h (fun b hb => henv b (List.mem_cons_of_mem _ hb)) hr

/-- the bounded wait and the forced stop are as in the source (regenerated on every run) -/
theorem skeleton_waitTimeout : Generated.waitTimeout = Expected.waitTimeout := by rfl
theorem skeleton_execute : Generated.execute = Expected.execute := by rfl
theorem skeleton_stopWorkers : Generated.stopWorkers = Expected.stopWorkers := by rfl
theorem skeleton_runNode : Generated.runNode = Expected.runNode := by rfl


/-! ### functions the model's assumptions rest on (construction, wiring, surrounding calls) are unchanged -/
theorem source_exSendMessage : GeneratedSrc.exSendMessage = ExpectedSrc.exSendMessage := by rfl
theorem source_msgInitKafkaSender : GeneratedSrc.msgInitKafkaSender = ExpectedSrc.msgInitKafkaSender := by rfl
theorem source_msgShutdownKafkaSender : GeneratedSrc.msgShutdownKafkaSender = ExpectedSrc.msgShutdownKafkaSender := by rfl
theorem source_msgGetSender : GeneratedSrc.msgGetSender = ExpectedSrc.msgGetSender := by rfl
theorem source_exSendMessageFn : GeneratedSrc.exSendMessageFn = ExpectedSrc.exSendMessageFn := by rfl
theorem source_exAckMessageFn : GeneratedSrc.exAckMessageFn = ExpectedSrc.exAckMessageFn := by rfl

theorem source_kpStop : GeneratedSrc.kpStop = ExpectedSrc.kpStop := by rfl
theorem source_kpShutdown : GeneratedSrc.kpShutdown = ExpectedSrc.kpShutdown := by rfl
theorem source_msShutdown : GeneratedSrc.msShutdown = ExpectedSrc.msShutdown := by rfl

/-! ### the timeout a configuration file asks for is the one the executor gets (defaulted only when absent or non-positive) -/
theorem source_cfgRead : GeneratedSrc.cfgRead = ExpectedSrc.cfgRead := by rfl

/-! ### what Executor.Shutdown calls on the way out must return -/
theorem source_mrShutdown : GeneratedSrc.mrShutdown = ExpectedSrc.mrShutdown := by rfl

/-! ### influence closure: the pinned functions, and every function of the repository that writes a struct field or package
variable they read, are unchanged (digests regenerated from /repo on every run; a difference names the functions) -/
/-! ### The code itself, translated (`Generated/Trans.lean`, rewritten from /repo on every run by extractor/translate.go)

The `translated_*` theorems are about MiniGo terms the translator produced from the current Go source: for every
environment the translated fragment does what the hand-written model function says.  They are semantic obligations —
a rewrite that preserves the behaviour keeps them provable, a changed comparison, bound or argument does not. -/
section Translated
open Firebolt.MiniGo Firebolt.TransBase

/-- the end of Execute, translated (everything after the main loop has seen the source channel closed): every root's input
is closed, the wait for the workers is bounded by the configured `shutdowntimeout` seconds, workers are stopped by force
exactly when that wait timed out, and in both cases Execute goes on: the message sender is shut down and the function
returns -/
theorem translated_executeTail (σ : Env) :
    obs Trans.exExecuteTail σ = TransExpected.exExecuteTail σ := by
  by_cases h : σ "waitTimeout#0" = 0 <;> minigo_simp [Trans.exExecuteTail, TransExpected.exExecuteTail, h]

/-- waitTimeout, translated: a goroutine waits for the WaitGroup and closes `c`; the timer is armed with the timeout handed
in; the result is `false` exactly when `c` fires first and `true` exactly when the timer does — nothing else is waited for -/
theorem translated_waitTimeout (σ : Env) (hs : σ "select#0" = 0 ∨ σ "select#0" = 1) :
    let r := run Trans.exWaitTimeout σ
    r.stuck = false ∧ r.ret = some [σ "select#0"] ∧
    r.calls = [("make", [σ "chan struct{}"]), ("go func() { defer close(c) wg.Wait() }", []),
               ("time.After", [σ "timeout"]), ("select", [σ "make#0", σ "time.After#0"])] := by
  rcases hs with h | h <;> minigo_simp [Trans.exWaitTimeout, h]

def observeCall (σ : Env) : String × List Int :=
  ("metrics.Node().ProcessTime.WithLabelValues(nc.Config.ID).Observe", [σ "time.Since(start).Seconds()"])

/-- invokeProcessorAsync, translated: the event is wrapped with the three callbacks and handed to the node's ProcessAsync —
and that is all: in particular nothing is counted on the node's WaitGroup here (the rendezvous of the close cascade counts
workers, not events) -/
theorem translated_invokeAsync (σ : Env) (hok : σ "assert AsyncNode#1" ≠ 0) :
    obs Trans.ncInvokeAsync σ =
      ⟨[("time.Now", []),
        ("firebolt.NewAsyncEvent", [σ "event", σ "func literal errFunc", σ "func literal eventFunc", σ "func literal filterFunc"]),
        ("assert AsyncNode", [σ "nc.NodeProcessor"]),
        ("asyncNode.ProcessAsync", [σ "firebolt.NewAsyncEvent#0"])], none, false⟩ := by
  minigo_simp [Trans.ncInvokeAsync, hok]

/-- the three answers an asynchronous node can give, translated: each records the processing time and reports to handleResult
exactly once — the error with the original event, the result (or nil) with no error, a filtered event with neither — and does
nothing else: whatever the answer, nothing is left for the shutdown cascade to wait for -/
theorem translated_asyncCallbacks (σ : Env) :
    obs Trans.ncAsyncErrFunc σ = ⟨[observeCall σ, ("nc.handleResult", [σ "err", σ "event", 0])], none, false⟩ ∧
    obs Trans.ncAsyncEventFunc σ =
      ⟨[observeCall σ, ("nc.handleResult", [0, σ "event", if σ "result" ≠ 0 then σ "eventToEventSlice(result.Event)" else 0])], none, false⟩ ∧
    obs Trans.ncAsyncFilterFunc σ = ⟨[observeCall σ, ("nc.handleResult", [0, σ "event", 0])], none, false⟩ := by
  by_cases h : σ "result" = 0 <;>
  minigo_simp [Trans.ncAsyncErrFunc, Trans.ncAsyncEventFunc, Trans.ncAsyncFilterFunc, observeCall, h]


/-- Executor.Shutdown, translated: the source (when there is one) is asked to shut down — its error is only logged —, then the
message receiver and the leader election when configured; the returned channel is served by a goroutine of its own, so the
caller may ignore it; nothing here waits for the nodes -/
theorem translated_shutdown (σ : Env) :
    obs Trans.exShutdown σ = TransExpected.exShutdown σ := by
  by_cases h1 : σ "e.source" = 0 <;> by_cases h2 : σ "e.messageReceiver" = 0 <;> by_cases h3 : σ "e.leader" = 0 <;>
  by_cases h4 : σ "e.source.Shutdown#0" = 0 <;>
  minigo_simp [TransExpected.exShutdown, Trans.exShutdown, h1, h2, h3, h4]

end Translated

theorem closure_unchanged : GeneratedClo.C17 = ExpectedClo.C17 := by rfl

end Firebolt.C17
