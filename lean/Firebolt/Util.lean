/-!
Shared helpers for the executable models and the line-protocol driver (core Lean only).
-/
namespace Firebolt

/-- Go's two's-complement wrap-around of a mathematical integer into int64. -/
def wrap64 (x : Int) : Int := (x + 2^63) % 2^64 - 2^63

theorem wrap64_id (x : Int) (h1 : -(2^63) ≤ x) (h2 : x < 2^63) : wrap64 x = x := by
  unfold wrap64; omega

def minI64 : Int := -(2^63)
def maxI64 : Int := 2^63 - 1

/-- split on a separator and trim each piece; empty pieces are dropped -/
def fields (s : String) (sep : String) : List String :=
  (s.splitOn sep).map (·.trimAscii.toString) |>.filter (· ≠ "")

def words (s : String) : List String := fields s " "

def joinWith (sep : String) (l : List String) : String := String.intercalate sep l

def boolOf (s : String) : Bool := s == "1" || s == "true"

def showB (b : Bool) : String := if b then "1" else "0"

/-- association-list store used by several models (Go maps with observable key presence) -/
abbrev AList (α : Type) := List (Int × α)

def AList.get? {α} (m : AList α) (k : Int) : Option α :=
  match m with
  | [] => none
  | (k', v) :: rest => if k' = k then some v else AList.get? rest k

def AList.set {α} (m : AList α) (k : Int) (v : α) : AList α :=
  match m with
  | [] => [(k, v)]
  | (k', v') :: rest => if k' = k then (k, v) :: rest else (k', v') :: AList.set rest k v

def AList.erase {α} (m : AList α) (k : Int) : AList α := m.filter (fun kv => kv.1 ≠ k)

def AList.keys {α} (m : AList α) : List Int := m.map (·.1)

@[simp] theorem AList.get?_set_eq {α} (m : AList α) (k : Int) (v : α) : (m.set k v).get? k = some v := by
  induction m with
  | nil => simp [AList.set, AList.get?]
  | cons kv rest ih =>
    obtain ⟨k', v'⟩ := kv
    by_cases h : k' = k <;> simp [AList.set, AList.get?, h, ih]

theorem AList.get?_set_ne {α} (m : AList α) (k j : Int) (v : α) (h : j ≠ k) :
    (m.set k v).get? j = m.get? j := by
  induction m with
  | nil => simp [AList.set, AList.get?]; intro e; exact absurd e.symm h
  | cons kv rest ih =>
    obtain ⟨k', v'⟩ := kv
    by_cases h1 : k' = k
    · subst h1
      have : ¬ k' = j := fun e => h e.symm
      simp [AList.set, AList.get?, this]
    · by_cases h2 : k' = j
      · subst h2; simp [AList.set, AList.get?, h1]
      · simp [AList.set, AList.get?, h1, h2, ih]

/-- insertion sort of Ints, for canonical printing -/
def insertSorted (x : Int) : List Int → List Int
  | [] => [x]
  | y :: ys => if x ≤ y then x :: y :: ys else y :: insertSorted x ys

def sortInts (l : List Int) : List Int := l.foldr insertSorted []

def dedupInts : List Int → List Int
  | [] => []
  | x :: xs => if xs.contains x then dedupInts xs else x :: dedupInts xs

end Firebolt

namespace Firebolt

/-! ### canonical text forms shared by the harness and the driver -/

def showPair (p : Int × Int) : String := s!"{p.1}:{p.2}"
def showPairs (l : List (Int × Int)) : String := "[" ++ joinWith "," (l.map showPair) ++ "]"

def parsePair (s : String) : Option (Int × Int) :=
  match s.splitOn ":" with
  | [a, b] => do let x ← a.toInt?; let y ← b.toInt?; pure (x, y)
  | _ => none

/-- `[a:b,c:d]` → pairs -/
def parsePairs (s : String) : Option (List (Int × Int)) :=
  if s.startsWith "[" && s.endsWith "]" then
    let inner := ((s.drop 1).dropEnd 1).toString
    (fields inner ",").mapM parsePair
  else none

/-- `k=[..]|k=[..]` or `-` for empty → association list -/
def parseMap (s : String) : Option (List (Int × List (Int × Int))) :=
  if s == "-" then some [] else
  (fields s "|").mapM (fun kv =>
    match kv.splitOn "=" with
    | [k, v] => do let k' ← k.toInt?; let v' ← parsePairs v; pure (k', v')
    | _ => none)

def showMap (m : List (Int × List (Int × Int))) : String :=
  if m.isEmpty then "-" else joinWith "|" (m.map (fun kv => s!"{kv.1}={showPairs kv.2}"))

/-- sort an association list by key (insertion sort; keys assumed distinct) -/
def sortByKey {α} (m : List (Int × α)) : List (Int × α) :=
  m.foldr (fun kv acc =>
    let rec ins : List (Int × α) → List (Int × α)
      | [] => [kv]
      | y :: ys => if kv.1 ≤ y.1 then kv :: y :: ys else y :: ins ys
    ins acc) []

/-- value of `key=` token in a space separated observation -/
def kvGet (toks : List String) (key : String) : Option String :=
  toks.findSome? (fun t => if t.startsWith (key ++ "=") then some (t.drop (key.length + 1)).toString else none)

/-- result of checking one case -/
structure Verdict where
  model : String                 -- canonical model observation
  spec : Option String := none   -- `some clause` = the property's Spec fails on the implementation's observation
  inScope : Bool := true         -- the case lies inside the property's stated quantifier (Spec is judged only then)
  tags : List String := []       -- model branches hit (coverage histogram)
  implView : Option String := none  -- when set, the part of the implementation's observation the model predicts
                                 -- (timing-dependent fields projected away); compared with `model` instead of the raw line

end Firebolt
