/-!
Flat instruction lists for the synchronisation skeleton of the Go functions the concurrent models are transcribed from.
`Generated/Skeleton.lean` is rewritten from /repo's sources by /verif/extractor on every run;
`Expected/Skeleton.lean` is the hand-checked copy the models were written against.  The equalities
`Generated.f = Expected.f` are proof obligations of the properties whose theorems depend on `f`'s shape.
-/
namespace Firebolt.Skeleton

structure Instr where
  depth : Nat
  op : String
  arg : String
deriving DecidableEq, Repr

end Firebolt.Skeleton
