import Firebolt.Model.Config
/-!
Spec of C13, from the property statement: when is a (structurally complete) configuration *consistent*, and what
an accepted configuration must look like.
-/
namespace Firebolt.Config

mutual
/-- ids of the processing tree (nodes and their descendants; error handlers are not part of the processing tree) -/
def idsN : Node → List String
  | .mk id _ _ _ cs _ => id :: idsL cs
def idsL : List Node → List String
  | [] => []
  | c :: cs => idsN c ++ idsL cs
end

/-- an error handler is legal: registered, consumes error reports, no children, no handler of its own -/
def handlerOk (r : Registry) (h : Node) : Bool :=
  h.children.isEmpty && h.handler.isNone &&
  (match r.node h.name with | some reg => reg.consumes = Ty.E | none => false)

def handlerOkO (r : Registry) : Option Node → Bool
  | none => true
  | some hn => handlerOk r hn

mutual
/-- every node registered, consumes what its parent produces, handler legal -/
def typedN (r : Registry) (input : Ty) : Node → Bool
  | .mk _ name _ _ cs h =>
    match r.node name with
    | none => false
    | some reg =>
      decide (reg.consumes = input) &&
      handlerOkO r h &&
      (match reg.produces with
        | some out => typedL r out cs
        | none => cs.isEmpty)        -- a sink produces nothing a child could consume
def typedL (r : Registry) (input : Ty) : List Node → Bool
  | [] => true
  | c :: cs => typedN r input c && typedL r input cs
end

/-- the statement's "consistent" (ids after defaulting) -/
def consistent (r : Registry) (c : Cfg) : Bool :=
  (idsL (defaultsL c.nodes)).Nodup &&
  (match c.transport with | some t => t = "kafka" | none => true) &&
  (match r.source c.source with
    | some p => typedL r p (defaultsL c.nodes)
    | none => false)

/-- everything but id uniqueness -/
def consistentButIds (r : Registry) (c : Cfg) : Bool :=
  (match c.transport with | some t => t = "kafka" | none => true) &&
  (match r.source c.source with
    | some p => typedL r p (defaultsL c.nodes)
    | none => false)

/-- ids the code's uniqueness walk visits: each root and its chain of first children -/
def spine : Node → List String
  | .mk id _ _ _ cs _ => id :: (match cs with | [] => [] | c :: _ => spine c)

def spines (ns : List Node) : List String := ns.flatMap spine

mutual
/-- defaults are filled everywhere (nodes, handlers, descendants) -/
def filledN : Node → Bool
  | .mk id name w b cs h => (id ≠ "" || name = "") && w ≠ 0 && b ≠ 0 && filledL cs && filledO h
def filledL : List Node → Bool
  | [] => true
  | c :: cs => filledN c && filledL cs
def filledO : Option Node → Bool
  | none => true
  | some hn => filledN hn
end

end Firebolt.Config
