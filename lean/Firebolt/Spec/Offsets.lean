import Firebolt.Model.Offsets
/-!
Spec of C06, written from the property statement (not from the code): a decidable predicate on the
observation of one `assignPartitions` call on a fresh tracker.  It is the conclusion of the
theorems in `Properties/C06.lean` and the oracle for real executions.
-/
namespace Firebolt.Offsets
open Firebolt

/-- what one call lets an observer see -/
structure Obs where
  ok : Bool
  assignCalled : Bool
  assign : List (Int × Int)                    -- argument of Assign (partition, offset), in order
  owned : Option (List (Int × Int))            -- ownership handed to the recovery consumer, if updated
  tracker : List (Int × List (Int × Int))      -- recovery requests per partition after the call, sorted by partition
  msgs : Nat                                   -- recovery-request messages broadcast
deriving Repr, Inhabited, DecidableEq

/-- committed offset as the statement counts it: absent or invalid count from 0 -/
def specStored (c : Option Int) : Int :=
  match c with
  | none => 0
  | some o => if o = -1001 then 0 else o

/-- the statement's quantifier: committed absent / invalid / 0..2^62, watermarks 0..2^62,
maxpartitionlag 0..MaxInt64, maxrecords ≥ 1, distinct partitions -/
def inScope (c : Cfg) (ps : List PartIn) : Bool :=
  decide (0 ≤ c.maxLag) && decide (c.maxLag < 2^63) && decide (1 ≤ c.maxRecords) && decide (c.maxRecords < 2^63) &&
  ps.all (fun pi =>
    decide (0 ≤ specStored pi.committed) && decide (specStored pi.committed ≤ 2^62) &&
    decide (0 ≤ pi.high) && decide (pi.high ≤ 2^62)) &&
  (ps.map (·.p)).Nodup

def specStart (maxLag : Int) (pi : PartIn) : Int :=
  let c := specStored pi.committed
  if pi.high - c ≤ maxLag then c else pi.high - maxLag

/-- the request the statement prescribes for one partition: none if nothing was skipped or recovery is off,
else the skipped range trimmed to its newest `maxRecords` records -/
def specRequest (cfg : Cfg) (pi : PartIn) : Option (Int × Int) :=
  let c := specStored pi.committed
  let start := specStart cfg.maxLag pi
  if cfg.recEnabled && decide (c < start) then some (max c (start - cfg.maxRecords), start) else none

def specTracker (cfg : Cfg) (ps : List PartIn) : List (Int × List (Int × Int)) :=
  sortByKey (ps.filterMap (fun pi => (specRequest cfg pi).map (fun r => (pi.p, [r]))))

/-- `none` = holds; `some clause` = the named clause of C06 fails -/
def spec (cfg : Cfg) (ps : List PartIn) (o : Obs) : Option String :=
  let queryFails := cfg.cerr || ps.any (·.werr)
  if queryFails then
    if o.ok then some "query-error-not-reported"
    else if o.assignCalled then some "assigned-despite-query-error"
    else if o.owned.isSome then some "ownership-updated-despite-error"
    else none
  else if cfg.aerr then
    if o.ok then some "assign-error-not-reported"
    else if o.owned.isSome then some "ownership-updated-despite-error"
    else none
  else
    if !o.ok then some "spurious-error"
    else if o.assign ≠ ps.map (fun pi => (pi.p, specStart cfg.maxLag pi)) then some "start-offset"
    else if o.assign.any (fun a => a.2 < 0) then some "negative-offset"
    else if o.tracker ≠ specTracker cfg ps then some "recovery-request"
    else if cfg.recEnabled && o.owned ≠ some o.assign then some "ownership-not-updated"
    else none

/-- the observation the model predicts for a call on a fresh tracker -/
def obsOf (r : Result) : Obs :=
  let asg := match r.res with | .assigned l => l | .error => []
  ⟨r.res != .error, r.assignCalled, asg, r.owned,
   sortByKey (r.tracker.map (fun kv => (kv.1, kv.2.map (fun q => (q.fromO, q.toO))))), r.bcasts.length⟩

end Firebolt.Offsets
