import Firebolt.Model.Params
/-!
Spec of C20, written from the property statement.
-/
namespace Firebolt.Params

/-- overlay clause: the result holds every baseline entry, every `librdkafka.`-prefixed parameter with the prefix removed,
prefixed values win, and nothing else.  `{topic}.`-prefixed remainders live in the sub-map (client library rule). -/
def specEntries (base : List (String × String)) (over : List (String × String)) (res : List (String × String)) : Bool :=
  -- every result entry is justified
  res.all (fun kv => match over.find? (fun o => o.1 == kv.1) with
    | some o => o.2 == kv.2
    | none => base.any (fun b => b.1 == kv.1 && b.2 == kv.2)) &&
  -- nothing is missing
  base.all (fun b => res.any (fun kv => kv.1 == b.1)) &&
  over.all (fun o => res.any (fun kv => kv.1 == o.1)) &&
  -- keys unique
  (res.map (·.1)).Nodup

def strip (pre : String) (m : PMap) : PMap :=
  m.filterMap (fun kv => if kv.1.startsWith pre then some ((kv.1.drop pre.length).toString, kv.2) else none)

def specOverlay (params : PMap) (base minBase res : ClientConf) : Option String :=
  let pre := strip prefixL params
  let topOver := pre.filter (fun kv => !kv.1.startsWith prefixT)
  let subOver := strip prefixT pre
  if base ≠ minBase then some "non-prefixed-parameter-leaks"
  else if !specEntries base.top topOver res.top then some "overlay-top"
  else if subOver.isEmpty && res.sub ≠ base.sub then some "overlay-sub-touched"
  else if !subOver.isEmpty && !specEntries (base.sub.getD []) subOver (res.sub.getD []) then some "overlay-sub"
  else none

/-- source parameter checks, as the statement lists them -/
def specCheck (m : PMap) : Bool :=
  lookup m "brokers" ≠ "" && lookup m "consumergroup" ≠ "" && lookup m "topic" ≠ "" &&
  (match atoi (lookup m "buffersize") with | some b => decide (0 < b) | none => false) &&
  (lookup m "maxpartitionlag" == "" || (match atoi (lookup m "maxpartitionlag") with | some l => decide (0 ≤ l) | none => false)) &&
  (lookup m "parallelrecoveryenabled" == "" || (parseBool (lookup m "parallelrecoveryenabled")).isSome)

/-- getter clause: configured value, or the default when absent (optional getters only), exactly when it parses and
lies within the bounds; error otherwise -/
def specInt (required : Bool) (v : Option String) (dflt minV maxV : Int) : GetRes Int :=
  match v with
  | some s => match atoi s with
    | some i => if minV ≤ i ∧ i ≤ maxV then .ok i else .err
    | none => .err
  | none => if required then .err else if minV ≤ dflt ∧ dflt ≤ maxV then .ok dflt else .err

def specStr (required : Bool) (v : Option String) (dflt : String) : GetRes String :=
  match v with
  | some s => .ok s
  | none => if required then .err else .ok dflt

/-- floats as IEEE bit patterns; `pv` is Go's `ParseFloat` of the configured string (trusted) -/
def specFloat (required : Bool) (present : Bool) (pv : Option UInt64) (dflt minV maxV : UInt64) : GetRes UInt64 :=
  let inB (x : UInt64) : Bool := !(Float.ofBits x > Float.ofBits maxV || Float.ofBits x < Float.ofBits minV)
  if present then
    match pv with
    | some x => if inB x then .ok x else .err
    | none => .err
  else if required then .err else if inB dflt then .ok dflt else .err

end Firebolt.Params
