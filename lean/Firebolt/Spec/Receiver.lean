import Firebolt.Model.Receiver
/-!
Spec of C10 (and the wire clauses of C12), from the property statements: a monitor over the history of records and
end-of-partition signals and the deliveries observed per event.
-/
namespace Firebolt.Receiver

structure Ghost where
  partitionCount : Nat
  seen : List Int := []              -- partitions that signalled at least once
  caughtUp : Bool := false
  hist : List Wire := []             -- decodable records so far, oldest first
deriving Repr, Inhabited

/-- latest record of every (type,key) — by record key — in history order of last occurrence -/
def latest : List Wire → List Wire
  | [] => []
  | w :: rest => if rest.any (fun w' => ukey w'.msg = ukey w.msg) then latest rest else w :: latest rest

/-- the most recent record with record key `k` -/
def lastWith (k : Bytes) (h : List Wire) : Option Wire := h.reverse.find? (fun w => ukey w.msg = k)

/-- the catch-up deliveries `d` are exactly the messages whose most recent record for their (type, key) is not an
acknowledgement, with that most recent payload, each once:
(1) every delivered message is the latest record of its key and that record is not an ack,
(2) every key whose latest record is not an ack is delivered, (3) no key is delivered twice -/
def catchUpOk (hist : List Wire) (d : List Msg) : Bool :=
  d.all (fun m => match lastWith (ukey m) hist with | some w => w.msg = m && !w.ack | none => false) &&
  hist.all (fun w => match lastWith (ukey w.msg) hist with | some w' => w'.ack || d.contains w'.msg | none => true) &&
  (d.map ukey).Nodup

def countMsg (m : Msg) (l : List Msg) : Nat := l.count m

/-- multiset equality of deliveries -/
def sameMultiset (a b : List Msg) : Bool := a.length = b.length && a.all (fun m => countMsg m a = countMsg m b)

def specStep (g : Ghost) (e : Ev) (d : List Msg) : Except String Ghost :=
  match e with
  | .record none => if d.isEmpty then .ok g else .error "undecodable-record-delivered"
  | .record (some w) =>
    let g' := { g with hist := g.hist ++ [w] }
    if !g.caughtUp then (if d.isEmpty then .ok g' else .error "delivered-before-caught-up")
    else if w.ack then (if d.isEmpty then .ok g' else .error "ack-delivered")
    else if d = [w.msg] then .ok g' else .error "new-message-not-delivered-exactly-once"
  | .eof p =>
    let seen := addEof g.seen p
    if g.caughtUp then (if d.isEmpty then .ok { g with seen := seen } else .error "redelivered-after-catch-up")
    else if seen.length ≥ g.partitionCount then
      if catchUpOk g.hist d then .ok { g with seen := seen, caughtUp := true } else .error "catch-up-deliveries"
    else if d.isEmpty then .ok { g with seen := seen } else .error "delivered-before-caught-up"
  | .kerr => if d.isEmpty then .ok g else .error "delivered-on-error"

def specRun (g : Ghost) : List Ev → List (List Msg) → Except String Ghost
  | [], [] => .ok g
  | e :: es, d :: ds => match specStep g e d with
    | .ok g' => specRun g' es ds
    | .error x => .error x
  | _, _ => .error "observation-length"

/-- replay start: the oldest retained record, or at most 50,000 records back; never below the low watermark -/
def specStart (low high : Int) : Int := if high - low > 50000 then high - 50000 else low

/-- C12 scope: types without '-' -/
def typeInScope (m : Msg) : Bool := !m.mtype.contains dash

end Firebolt.Receiver
