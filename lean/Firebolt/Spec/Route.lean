import Firebolt.Model.Route
/-!
Spec of C11 from the statement: who must receive a message, exactly once each, and which failures are reported.
Written over the flattened list of (index, subscriptions, fails) of all nodes, independent of the walk order.
-/
namespace Firebolt.Route

mutual
def flattenN (k : Int) : RNode → List (Int × List String × Bool) × Int
  | .mk s f cs =>
    let (l, k') := flattenL (k + 1) cs
    ((k, s, f) :: l, k')
def flattenL (k : Int) : List RNode → List (Int × List String × Bool) × Int
  | [] => ([], k)
  | c :: cs =>
    let (a, k1) := flattenN k c
    let (b, k2) := flattenL k1 cs
    (a ++ b, k2)
end

def everyone (srcSubs : List String) (srcFail : Bool) (roots : List RNode) : List (Int × List String × Bool) :=
  (-1, srcSubs, srcFail) :: (flattenL 0 roots).1

/-- observed: recipients (any order) and reported failures (any order) -/
def spec (t : String) (srcSubs : List String) (srcFail : Bool) (roots : List RNode)
    (recipients errors : List Int) : Option String :=
  let all := everyone srcSubs srcFail roots
  let want := (all.filter (fun x => x.2.1.contains t)).map (·.1)
  let wantErr := (all.filter (fun x => x.2.1.contains t && x.2.2)).map (·.1)
  if !recipients.Nodup then some "delivered-twice"
  else if recipients.any (fun r => !want.contains r) then some "delivered-to-unsubscribed"
  else if want.any (fun r => !recipients.contains r) then some "subscriber-missed"
  else if sortInts errors ≠ sortInts wantErr then some "failures-not-all-reported"
  else none

end Firebolt.Route
