import Firebolt.Model.Flow
/-!
Spec monitor for real executor runs (C01–C05, C16), written from the property statements.  It judges one finished run from
what the harness nodes observed: per node the multiset of events it was handed, how often it was set up and shut down,
its prometheus counters, the highest number of concurrently active processing calls, and six sequence stamps from one global
counter (setup, first/last processing entry, last processing exit, Shutdown entry/exit).  All equations are *relative to what
the parent actually received*, which is exactly the licence `discard_on_full_buffer` gives.
-/
namespace Firebolt.ExecTrace
open Firebolt Firebolt.Flow

structure NodeObs where
  recv : List String := []
  received : Nat := 0
  processed : Nat := 0
  filtered : Nat := 0
  failed : Nat := 0
  discarded : Nat := 0
  bufferFull : Nat := 0
  setups : Nat := 0
  shutdowns : Nat := 0
  highWater : Nat := 0
  seqSetup : Nat := 0
  seqFirstEnter : Nat := 0
  seqLastEnter : Nat := 0
  seqLastExit : Nat := 0
  seqShutEnter : Nat := 0
  seqShutExit : Nat := 0
  bad : String := "-"         -- handler identity checks failed (event / error not the original ones)
deriving Repr, Inhabited

structure RunObs where
  nodes : List (Nat × NodeObs)
  emitted : Nat
  returned : Bool
  seqReturn : Nat
  progress : Bool := true     -- gated scenario: the source finished while a discarding node was stalled
deriving Repr, Inhabited

def obsOf (r : RunObs) (i : Nat) : NodeObs := ((r.nodes.find? (fun x => x.1 = i)).map (·.2)).getD {}

def countS (x : String) (l : List String) : Nat := l.count x

/-- a ⊆ b as multisets -/
def subMultiset (a b : List String) : Bool := a.all (fun x => countS x a ≤ countS x b)
def sameMultiset (a b : List String) : Bool := a.length = b.length && subMultiset a b

inductive Role where
  | root | child | handler
deriving DecidableEq, Repr

/-- a violated clause, tagged with the property it belongs to -/
structure Viol where
  prop : String
  clause : String
deriving Repr, Inhabited

def checkNode (o : Oracle) (r : RunObs) (role : Role) (s : NSpec) (offered : List String) : List Viol :=
  let ob := obsOf r s.idx
  let isH := role = .handler
  -- nothing the node was handed may be missing from what it was offered (duplicated / invented), and — unless the node itself
  -- discards — nothing it was offered may be missing from what it was handed (lost); both can happen in one run
  let conservation : List Viol :=
    (if !subMultiset ob.recv offered then
      [⟨if isH then "C02" else "C01", if isH then "error-report-duplicated-or-foreign" else "event-duplicated-or-invented"⟩] else []) ++
    (if !s.discard && !subMultiset offered ob.recv then
      [⟨if isH then "C02" else "C01", if isH then "error-report-lost" else "event-lost"⟩, ⟨"C04", "lost-without-discard"⟩, ⟨"C03", "not-drained-at-return"⟩]
    else [])
  let identity : List Viol := if ob.bad ≠ "-" then [⟨"C02", "report-does-not-carry-original-event-and-error"⟩] else []
  let discardAcc : List Viol :=
    if ob.discarded + ob.recv.length ≠ offered.length && subMultiset ob.recv offered then [⟨"C04", "discard-not-counted"⟩, ⟨"C16", "discarded-counter"⟩] else []
  -- `buffer_full_events_total` counts "events that caused blocking because the node's buffer was full": a discarding node
  -- must never be delivered to by the blocking path
  let blocking : List Viol :=
    if s.discard && ob.bufferFull > 0 then [⟨"C04", "blocking-delivery-to-discarding-node"⟩] else []
  let counters : List Viol :=
    (if ob.received ≠ ob.recv.length then [⟨"C16", "received-counter"⟩] else []) ++
    (if ob.processed ≠ count o s ob.recv isPass then [⟨"C16", "processed-counter"⟩] else []) ++
    (if ob.filtered ≠ count o s ob.recv isFilter then [⟨"C16", "filtered-counter"⟩] else []) ++
    (if ob.failed ≠ count o s ob.recv isError then [⟨"C16", "failed-counter"⟩] else [])
  let lifecycle : List Viol :=
    (if ob.setups ≠ 1 then [⟨"C05", "not-set-up-exactly-once"⟩] else []) ++
    (if ob.recv.length > 0 && !(ob.seqSetup < ob.seqFirstEnter) then [⟨"C05", "event-before-setup"⟩] else []) ++
    (if ob.highWater > s.workers then [⟨"C05", "more-concurrent-calls-than-workers"⟩] else []) ++
    (if r.returned && ob.shutdowns ≠ 1 then [⟨"C03", "shutdown-not-exactly-once"⟩] else []) ++
    (if r.returned && ob.shutdowns = 1 && ob.recv.length > 0 && !(ob.seqLastExit < ob.seqShutEnter) then
      [⟨"C03", "shutdown-before-processing-returned"⟩, ⟨"C05", "shutdown-overlaps-processing-call"⟩] else []) ++
    (if r.returned && ob.shutdowns = 1 && ob.recv.length > 0 && !(ob.seqLastEnter < ob.seqShutEnter) then [⟨"C03", "event-after-shutdown-began"⟩] else []) ++
    (if r.returned && ob.shutdowns = 1 && !(ob.seqShutExit < r.seqReturn) then [⟨"C03", "execute-returned-before-shutdown"⟩] else [])
  conservation ++ identity ++ discardAcc ++ blocking ++ counters ++ lifecycle

/-- parent → child/handler ordering: the downstream node's Shutdown begins only after the parent's has returned -/
def checkEdge (r : RunObs) (parent child : NSpec) : List Viol :=
  let p := obsOf r parent.idx
  let c := obsOf r child.idx
  if r.returned && p.shutdowns = 1 && c.shutdowns = 1 && !(p.seqShutExit < c.seqShutEnter) then
    [⟨"C03", "child-shut-down-before-parent-shutdown-returned"⟩] else []

def checkAbsent (r : RunObs) (s : NSpec) : List Viol :=
  let ob := obsOf r s.idx
  (if ob.setups ≠ 0 then [⟨"C01", "disabled-node-set-up"⟩] else []) ++
  (if !ob.recv.isEmpty then [⟨"C01", "disabled-node-saw-event"⟩] else [])

mutual
def absentN (r : RunObs) : FNode → List Viol
  | .mk s cs h => checkAbsent r s ++ absentL r cs ++ absentO r h
def absentL (r : RunObs) : List FNode → List Viol
  | [] => []
  | c :: cs => absentN r c ++ absentL r cs
def absentO (r : RunObs) : Option FNode → List Viol
  | none => []
  | some h => absentN r h
end

mutual
def walkN (o : Oracle) (r : RunObs) (role : Role) (parent : Option NSpec) (offered : List String) : FNode → List Viol
  | .mk s cs h =>
    if s.disabled && role ≠ .handler then absentN r (.mk s cs h)
    else
      let mine := (obsOf r s.idx).recv
      checkNode o r role s offered ++ (match parent with | some p => checkEdge r p s | none => []) ++
      (if role = .handler then absentL r cs ++ absentO r h
       else walkL o r s (passed o s mine) cs ++ walkH o r s ((failedEvents o s mine).map errPayload) h)
def walkL (o : Oracle) (r : RunObs) (parent : NSpec) (offered : List String) : List FNode → List Viol
  | [] => []
  | c :: cs => walkN o r .child (some parent) offered c ++ walkL o r parent offered cs
def walkH (o : Oracle) (r : RunObs) (parent : NSpec) (offered : List String) : Option FNode → List Viol
  | none => []
  | some h => walkN o r .handler (some parent) offered h
end

def walkRoots (o : Oracle) (r : RunObs) (stream : List String) : List FNode → List Viol
  | [] => []
  | c :: cs => walkN o r .root none stream c ++ walkRoots o r stream cs

/-- all violations of one run -/
def judge (o : Oracle) (roots : List FNode) (stream : List String) (r : RunObs) : List Viol :=
  (if !r.returned then [⟨"C03", "execute-did-not-return"⟩] else []) ++
  (if !r.progress then [⟨"C04", "discarding-node-made-its-producers-wait"⟩] else []) ++
  walkRoots o r (stream.take r.emitted) roots

end Firebolt.ExecTrace
