import Firebolt.Model.Tracker
/-!
Spec of C08, written from the property statement: a decidable predicate over the *observable* history of a
tracker (the operations applied to it, the snapshots it broadcast, what `GetRecoveryRequest` answered, the
final state of the instance and of two replicas fed all / only the latest-per-key of its broadcasts).
The spec keeps as ghost state only what an observer knows: the last snapshot seen per partition.
-/
namespace Firebolt.Tracker

abbrev PSnap := List (Int × Int)            -- (from, to) pairs
abbrev PMap := List (Int × PSnap)

inductive ObsOut where
  | bc (ok : Bool) (m : PMap)               -- result of a mutating op and the broadcasts it made
  | got (r : Option (Int × Int))
  | unit
deriving Repr, Inhabited, DecidableEq

structure Final where
  a : PMap
  ball : PMap
  blast : PMap
deriving Repr, Inhabited, DecidableEq

def coveredP (l : PSnap) (o : Int) : Bool := l.any (fun r => decide (r.1 ≤ o) && decide (o < r.2))

/-- all endpoints at which the coverage indicator of any of the lists can change -/
def endpoints (ls : List PSnap) : List Int := ls.flatMap (fun l => l.flatMap (fun r => [r.1, r.2]))

/-- coverage after adding `[f,t)` is exactly old coverage ∪ `[f,t)`; it suffices to test every endpoint, because
both indicators are constant between consecutive endpoints -/
def addCoverageOk (old new : PSnap) (f t : Int) : Bool :=
  (endpoints [old, new, [(f, t)]]).all (fun o => coveredP new o == (coveredP old o || (decide (f ≤ o) && decide (o < t))))

def lookupP (m : PMap) (p : Int) : Option PSnap := (m.find? (fun kv => kv.1 = p)).map (·.2)
def setP (m : PMap) (p : Int) (l : PSnap) : PMap :=
  if m.any (fun kv => kv.1 = p) then m.map (fun kv => if kv.1 = p then (p, l) else kv) else m ++ [(p, l)]

structure Ghost where
  cur : PMap := []                -- last snapshot known per partition (none = never seen)
  own : List Int := []            -- partitions whose last change was a broadcast by this instance
deriving Repr, Inhabited

/-- one step of the spec; `some clause` = violated -/
def specStep (g : Ghost) (op : Op) (o : ObsOut) : Except String Ghost :=
  match op, o with
  | .add p f t, .bc ok m =>
    let old := (lookupP g.cur p).getD []
    match m with
    | [(q, new)] =>
      if !ok then .error "add-reported-error"
      else if q ≠ p then .error "add-broadcast-wrong-partition"
      else if !addCoverageOk old new f t then .error "add-coverage"
      else .ok { cur := setP g.cur p new, own := p :: g.own.filter (· ≠ p) }
    | _ => .error "add-must-broadcast-one-snapshot"
  | .upd p f t, .bc ok m =>
    match lookupP g.cur p with
    | some ((_, ht) :: rest) =>
      if ht = t then
        if !ok then .error "update-rejected"
        else if m ≠ [(p, (f, t) :: rest)] then .error "update-not-only-head-from"
        else .ok { cur := setP g.cur p ((f, t) :: rest), own := p :: g.own.filter (· ≠ p) }
      else if ok || !m.isEmpty then .error "update-mismatch-must-fail-silently" else .ok g
    | _ => if ok || !m.isEmpty then .error "update-without-request-must-fail" else .ok g
  | .done p t, .bc ok m =>
    match lookupP g.cur p with
    | some l =>
      if l.any (fun r => r.2 = t) then
        let l' := l.filter (fun r => r.2 ≠ t)
        if !ok then .error "complete-rejected"
        else if m ≠ [(p, l')] then .error "complete-not-only-named"
        else .ok { cur := setP g.cur p l', own := p :: g.own.filter (· ≠ p) }
      else if ok || !m.isEmpty then .error "complete-mismatch-must-fail-silently" else .ok g
    | none => if ok || !m.isEmpty then .error "complete-without-entry-must-fail" else .ok g
  | .cancel, .bc ok m =>
    let want := sortByKey (g.cur.map (fun kv => (kv.1, ([] : PSnap))))
    if !ok then .error "cancel-reported-error"
    else if m ≠ want then .error "cancel-all-snapshot"
    else .ok { cur := g.cur.map (fun kv => (kv.1, [])), own := g.cur.map (·.1) }
  | .get p, .got r =>
    if r ≠ ((lookupP g.cur p).getD []).head? then .error "get-not-oldest" else .ok g
  | .recv k l, .unit =>
    let p := k.getD 0
    .ok { cur := setP g.cur p (l.map (fun r => (r.fromO, r.toO))), own := g.own.filter (· ≠ p) }
  | .recvBad _, .unit => .ok g
  | _, _ => .error "observation-shape"

def specRun (g : Ghost) : List Op → List ObsOut → Except String Ghost
  | [], [] => .ok g
  | op :: ops, o :: os => match specStep g op o with
    | .ok g' => specRun g' ops os
    | .error e => .error e
  | _, _ => .error "observation-length"

/-- in scope: ranges well-formed (`from ≤ to`), parsable keys (the callers only ever produce such) -/
def opInScope : Op → Bool
  | .add _ f t => decide (f ≤ t)
  | .upd _ _ _ => true
  | .recv k l => k.isSome && l.all (fun r => decide (r.fromO ≤ r.toO))
  | .recvBad k => k.isSome
  | _ => true

/-- updates may move `from` anywhere; the coverage clause of `add` needs well-formed lists, so an update
that makes a request ill-formed (`from > to`) takes the history out of scope -/
def updWellFormed : Op → Bool
  | .upd _ f t => decide (f ≤ t)
  | _ => true

def inScope (ops : List Op) : Bool := ops.all opInScope && ops.all updWellFormed

def spec (ops : List Op) (outs : List ObsOut) (fin : Final) : Option String :=
  match specRun {} ops outs with
  | .error e => some e
  | .ok g =>
    let cur := sortByKey g.cur
    if fin.a ≠ cur then some "final-state"
    else if g.own.any (fun p => lookupP fin.ball p ≠ lookupP cur p) then some "replica-all-messages"
    else if g.own.any (fun p => lookupP fin.blast p ≠ lookupP cur p) then some "replica-latest-per-key"
    else none

/-! ### the model's own observation, in the observer's vocabulary (what the driver prints and the bridge theorem is about) -/

def snapP (l : Snap) : PSnap := l.map (fun r => (r.fromO, r.toO))
def storeP (s : Store) : PMap := sortByKey (s.map (fun kv => (kv.1, snapP kv.2)))

def outObs : Out → ObsOut
  | .bcast ok bs => .bc ok (sortByKey (bs.map (fun b => (b.1, snapP b.2))))
  | .got r => .got (r.map (fun q => (q.fromO, q.toO)))
  | .unit => .unit

/-- the whole observation of a model run: per-op outputs, final state, and the two replicas (fed every broadcast / only the
latest per key) -/
def modelRun (ops : List Op) : List ObsOut × Final :=
  let (s, outs) := run [] ops
  let bs := allBcasts outs
  (outs.map outObs, ⟨storeP s, storeP (recvAll [] bs), storeP (recvAll [] (latestPerKey bs))⟩)

end Firebolt.Tracker
