import Firebolt.Model.Recovery
import Firebolt.Spec.Tracker
/-!
Spec of C07 and C09 (and the flagging clause shared with C19), written from the property statements as a *monitor*
over the observable history of one (or, with `crash`, several successive) recovery-consumer incarnation(s):
the operations applied, and per operation the emitted events, the calls made on the Kafka client and the snapshots
broadcast.  Ghost state is only what an observer can know: ownership (from the ops), the last snapshot per partition
(from broadcasts and received messages), which partitions the client was last told to read and from where, and the
highest offset emitted so far.  The monitor does not use `Model/Recovery.lean`.
-/
namespace Firebolt.Recovery
open Firebolt Firebolt.Tracker

structure ObsOp where
  recE : List (Int × Int) := []            -- emissions flagged as recovery (partition, offset)
  mainE : List (Int × Int) := []           -- emissions not flagged
  calls : String := ""                     -- client calls: U = Unassign, A = Assign
  assign : Option (List (Int × Int)) := none   -- argument of the last Assign (partition, offset), sorted
  bcasts : PMap := []                      -- snapshots broadcast, sorted by partition
deriving Repr, Inhabited, DecidableEq

structure Reading where
  assignOff : Int
  toO : Int
deriving Repr, Inhabited, DecidableEq

structure Ghost where
  owned : List Int := []
  tr : PMap := []
  reading : AList Reading := []
  lowFrom : AList Int := []       -- lowest `from` seen for the current head request of a partition
  lastEmit : AList Int := []      -- highest offset emitted for the current head request of a partition
  cursor : AList Int := []
  low : AList Int := []
  unknown : List Int := []        -- partitions whose request changed under the reader: not judged until the next refresh
deriving Repr, Inhabited

def headOf (tr : PMap) (p : Int) : Option (Int × Int) := ((lookupP tr p).getD []).head?

/-- record a new snapshot for `p`; a head with a new `to` starts a new request (resets lowFrom / lastEmit) -/
def Ghost.setSnap (g : Ghost) (p : Int) (l : PSnap) : Ghost :=
  let old := headOf g.tr p
  let g1 := { g with tr := setP g.tr p l }
  match l.head?, old with
  | some (f, t), some (_, t') =>
    if t = t' then { g1 with lowFrom := g1.lowFrom.set p (min f ((g.lowFrom.get? p).getD f)) }
    else { g1 with lowFrom := g1.lowFrom.set p f, lastEmit := g1.lastEmit.erase p }
  | some (f, _), none => { g1 with lowFrom := g1.lowFrom.set p f, lastEmit := g1.lastEmit.erase p }
  | none, _ => { g1 with lowFrom := g1.lowFrom.erase p, lastEmit := g1.lastEmit.erase p }

def Ghost.applyBcasts (g : Ghost) (bs : PMap) : Ghost := bs.foldl (fun g b => g.setSnap b.1 b.2) g

/-- a request or a foreign snapshot changed the request a reader is working on: outside the statements' histories,
the partition is not judged until the next refresh point -/
def Ghost.taint (g : Ghost) (p : Int) : Ghost :=
  match g.reading.get? p with
  | some rd => if ((headOf g.tr p).map (·.2)) = some rd.toO then g
               else { g with reading := g.reading.erase p, unknown := p :: g.unknown }
  | none => g

/-- owned ∩ outstanding, with the `to` of the oldest request -/
def wanted (g : Ghost) : List (Int × Int) :=
  (dedupInts g.owned).filterMap (fun p => (headOf g.tr p).map (fun h => (p, h.2)))

def sameReading (w : List (Int × Int)) (r : AList Reading) : Bool :=
  w.length = r.length && w.all (fun x => match r.get? x.1 with | some rd => rd.toO = x.2 | none => false)

/-- a refresh point: the client must (now) be reading exactly `wanted`, each partition from a point that loses nothing
(`≤` the broadcast progress point or the record after the last emitted one) and repeats nothing from below the request -/
def refreshPoint (g : Ghost) (o : ObsOp) : Except String Ghost :=
  let w := wanted g
  match o.assign with
  | none =>
    if sameReading w g.reading || !g.unknown.isEmpty then .ok g
    else .error "not-reading-owned-outstanding"
  | some asg =>
    if sortInts (asg.map (·.1)) ≠ sortInts (w.map (·.1)) then .error "assigned-set-differs-from-owned-outstanding"
    else if !(asg.map (·.1)).Nodup then .error "assigned-set-differs-from-owned-outstanding"
    else
      let bad := asg.any (fun a =>
        if g.unknown.contains a.1 then false else   -- request replaced under the reader: judged again from this refresh on
        match headOf g.tr a.1 with
        | none => true
        | some (f, _) =>
          let lo := (g.lowFrom.get? a.1).getD f
          let hi0 := match g.lastEmit.get? a.1 with | some e => max f (e + 1) | none => f
          -- staying where the client already was reading this same request from is never a new loss (a request widened
          -- downward while it is being read is outside the statements' histories)
          let hi := match g.reading.get? a.1 with
            | some rd => if some rd.toO = (headOf g.tr a.1).map (·.2) then max hi0 rd.assignOff else hi0
            | none => hi0
          a.2 < lo || a.2 > hi)
      if bad then .error "resume-offset"
      else .ok { g with
        reading := asg.map (fun a => (a.1, ⟨a.2, ((headOf g.tr a.1).map (·.2)).getD 0⟩)),
        cursor := asg, unknown := [] }

def noEmits (o : ObsOp) : Bool := o.recE.isEmpty && o.mainE.isEmpty

/-- a record `(p, off)` was delivered by the recovery client -/
def delivered (g : Ghost) (p off : Int) (o : ObsOp) : Except String Ghost :=
  if !o.mainE.isEmpty then .error "recovery-event-not-flagged"
  else if g.unknown.contains p then
    -- not judged, but the ghost must follow what the client was told
    if o.assign.isSome then refreshPoint (g.applyBcasts o.bcasts) o else .ok (g.applyBcasts o.bcasts)
  else match g.reading.get? p with
  | none => if o.recE.isEmpty then .ok (g.applyBcasts o.bcasts) else .error "emitted-for-partition-not-in-recovery"
  | some rd =>
    let lo := (g.lowFrom.get? p).getD rd.assignOff
    -- emissions permitted only for this record, inside [from, to]
    if o.recE.any (fun e => e ≠ (p, off)) then .error "emitted-other-record"
    else if o.recE.length > 1 then .error "emitted-twice"
    else if !o.recE.isEmpty && (off < lo || off > rd.toO) then .error "emitted-outside-window"
    else if rd.assignOff ≤ off && off < rd.toO && o.recE.isEmpty then .error "window-record-not-emitted"
    else
      let g1 := if o.recE.isEmpty then g else
        { g with lastEmit := g.lastEmit.set p (max off ((g.lastEmit.get? p).getD off)) }
      let completes := match lookupP o.bcasts p with
        | some l => !l.any (fun r => r.2 = rd.toO)
        | none => false
      if off > rd.toO && !completes then .error "completion-not-broadcast"
      else if completes then
        if off < rd.toO then .error "completed-before-end-of-window"
        else refreshPoint (g1.applyBcasts o.bcasts) o
      else
        -- a progress snapshot may not run ahead of what was emitted, and must not change `to`
        match lookupP o.bcasts p with
        | some l =>
          match l.head? with
          | some (f, t) =>
            if t ≠ rd.toO then .error "progress-changed-to"
            else if f > ((g1.lastEmit.get? p).getD (f - 1)) then .error "progress-ahead-of-emission"
            else .ok (g1.applyBcasts o.bcasts)
          | none => .error "progress-dropped-request"
        | none => .ok (g1.applyBcasts o.bcasts)

/-- truncation, per partition being read: if its next record is gone (`cursor < low watermark`) the operation must have
closed the request (nothing left to recover) or restarted it at the low watermark -/
def truncBad (g : Ghost) (o : ObsOp) (pr : Int × Reading) : Option String :=
  let p := pr.1
  let low := (g.low.get? p).getD 0
  let cur := (g.cursor.get? p).getD pr.2.assignOff
  if cur < low then
    match lookupP o.bcasts p with
    | none => some "truncation-not-handled"
    | some l =>
      if low ≥ pr.2.toO then (if l.any (fun r => r.2 = pr.2.toO) then some "truncated-request-not-closed" else none)
      else match l.head? with
        | some (f, t) => if f = low && t = pr.2.toO then none else some "truncation-restart-point"
        | none => some "truncation-dropped-request"
  else none

def specStep (g : Ghost) (op : Op) (o : ObsOp) : Except String Ghost :=
  match op with
  | .main p off =>
    if o.mainE ≠ [(p, off)] then .error "main-event-not-emitted-once"
    else if !o.recE.isEmpty then .error "main-event-flagged-as-recovery"
    else .ok g
  | .poll p =>
    match g.cursor.get? p with
    | none => if noEmits o then .ok g else .error "emitted-without-delivery"
    | some off => delivered { g with cursor := g.cursor.set p (off + 1) } p off o
  | .msg p off => delivered g p off o
  | .kerr true =>
    if !noEmits o then .error "emitted-on-error" else
    -- truncation: for every partition being read whose next record is gone
    match g.reading.findSome? (truncBad g o) with
    | some e => .error e
    | none => .ok { (g.applyBcasts o.bcasts) with reading := [] }
  | .kerr false => if noEmits o && o.bcasts.isEmpty && o.calls.isEmpty then .ok g else .error "other-error-must-be-ignored"
  | .setLow p v => .ok { g with low := g.low.set p v }
  | .refresh => if !noEmits o then .error "emitted-on-refresh" else refreshPoint (g.applyBcasts o.bcasts) o
  | .own ps => if !noEmits o then .error "emitted-on-assignment" else .ok { g with owned := ps }
  | .revoke => if !noEmits o then .error "emitted-on-revoke" else refreshPoint { g with owned := [] } o
  | .req p _ _ => if !noEmits o then .error "emitted-on-request" else .ok ((g.applyBcasts o.bcasts).taint p)
  | .recv p l => if !noEmits o then .error "emitted-on-receive" else .ok ((g.setSnap p (l.map (fun r => (r.fromO, r.toO)))).taint p)
  | .crash => .ok { g with owned := [], reading := [], cursor := [], unknown := [] }

def specRun (g : Ghost) : List Op → List ObsOp → Option String
  | [], [] => none
  | op :: ops, o :: os => match specStep g op o with
    | .ok g' => specRun g' ops os
    | .error e => some e
  | _, _ => some "observation-length"

/-- the statements' quantifier: well-formed requests (`0 ≤ from ≤ to`), non-negative offsets, and no snapshot received
for a partition while this instance is reading it (another instance only writes a partition's snapshot when it owns it) -/
def opInScope : Op → Bool
  | .req _ f t => decide (0 ≤ f) && decide (f ≤ t)
  | .recv _ l => l.all (fun r => decide (0 ≤ r.fromO) && decide (r.fromO ≤ r.toO))
  | .msg _ o => decide (0 ≤ o)
  | .main _ o => decide (0 ≤ o)
  | .setLow _ v => decide (0 ≤ v)
  | _ => true

/-! ### the model's own observation of one operation, in the observer's vocabulary (what the driver prints and the bridge
theorem is about) -/

def sortPairs (l : List (Int × Int)) : List (Int × Int) := sortByKey l

def callStr : List Call → String
  | [] => ""
  | .unassign :: r => "U" ++ callStr r
  | .assign _ :: r => "A" ++ callStr r

def lastAssign (cs : List Call) : Option (List (Int × Int)) :=
  cs.foldl (fun acc c => match c with | .assign l => some (sortPairs l) | .unassign => acc) none

def obsOf (o : Out) : ObsOp :=
  { recE := (o.emits.filter (·.recovery)).map (fun e => (e.p, e.o)),
    mainE := (o.emits.filter (fun e => !e.recovery)).map (fun e => (e.p, e.o)),
    calls := callStr o.calls, assign := lastAssign o.calls,
    bcasts := sortByKey (o.bcasts.map (fun b => (b.1, snapP b.2))) }

end Firebolt.Recovery
