-- Root of the `Firebolt` library: models, specs, lemmas, property theorems.
import Firebolt.Util
import Firebolt.Model.Tracker
import Firebolt.Model.Offsets
import Firebolt.Spec.Offsets
