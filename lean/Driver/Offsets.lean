import Firebolt.Model.Offsets
import Firebolt.Spec.Offsets
/-! line-protocol adapter for component `offsets` (C06) -/
namespace Firebolt.Offsets
open Firebolt Firebolt.Tracker

def parsePart (s : String) : Option PartIn :=
  match words s with
  | [p, c, lo, hi, we] => do
    let p ← p.toInt?
    let c ← if c == "a" then some none else c.toInt?.map some
    let lo ← lo.toInt?
    let hi ← hi.toInt?
    pure ⟨p, c, lo, hi, boolOf we⟩
  | _ => none

def parseInput (s : String) : Option (Cfg × List PartIn) :=
  match fields s ";" with
  | hd :: rest =>
    match words hd with
    | [ml, re, mr, ce, ae] => do
      let ml ← ml.toInt?
      let mr ← mr.toInt?
      -- a trailing "@ <history>" segment says what the consumer went through before the judged call; the property holds
      -- whenever partitions are assigned, so the model ignores it
      let ps ← (rest.filter (fun seg => !(words seg).head?.any (· == "@"))).mapM parsePart
      pure (⟨ml, boolOf re, mr, boolOf ce, boolOf ae⟩, ps)
    | _ => none
  | _ => none

def snapPairs (l : Snap) : List (Int × Int) := l.map (fun r => (r.fromO, r.toO))

def renderStore (s : Store) : String := showMap (sortByKey (s.map (fun kv => (kv.1, snapPairs kv.2))))

def render (o : Obs) : String :=
  let r := if o.ok then "ok" else "err"
  let owned := match o.owned with | none => "none" | some l => showPairs l
  s!"{r} ac={showB o.assignCalled} assign={showPairs o.assign} owned={owned} tr={showMap o.tracker} msgs={o.msgs}"

def parseObs (s : String) : Option Obs :=
  let toks := words s
  match toks with
  | r :: _ => do
    let ac ← kvGet toks "ac"
    let asg ← (kvGet toks "assign") >>= parsePairs
    let ow ← kvGet toks "owned"
    let owned ← if ow == "none" then some none else (parsePairs ow).map some
    let tr ← (kvGet toks "tr") >>= parseMap
    let msgs ← (kvGet toks "msgs") >>= (·.toNat?)
    pure ⟨r == "ok", boolOf ac, asg, owned, tr, msgs⟩
  | _ => none

def modelObs (c : Cfg) (ps : List PartIn) : Obs := obsOf (assign c [] ps)

def tagsOf (c : Cfg) (ps : List PartIn) : List String :=
  (if c.cerr then ["cerr"] else []) ++ (if c.aerr then ["aerr"] else []) ++
  ps.flatMap (fun pi =>
    let po := storedOffset pi.committed
    (if pi.werr then ["werr"] else []) ++
    (if pi.committed.isNone then ["absent"] else if pi.committed == some offsetInvalid then ["invalid"] else []) ++
    (if wrap64 (pi.high - po) > c.maxLag then
      (if c.maxLag > pi.high then ["zero-branch"] else
        ["capped"] ++ (if c.recEnabled then
          (if wrap64 (wrap64 (pi.high - c.maxLag) - po) > c.maxRecords then ["req-trimmed"] else ["req-full"]) else ["no-recovery"]))
     else if pi.high - po = c.maxLag then ["lag-eq-max"] else ["normal"]))

def check (input impl : String) : Verdict :=
  match parseInput input with
  | none => { model := "bad-input" }
  | some (c, ps) =>
    let m := modelObs c ps
    let scope := inScope c ps
    let sp := if scope then
        match parseObs impl with
        | none => some "unparsable-observation"
        | some o => spec c ps o
      else none
    { model := render m, spec := sp, inScope := scope, tags := tagsOf c ps }

end Firebolt.Offsets
