import Firebolt.Model.ExecNet
import Firebolt.Model.Flow
/-!
Runs the *operational* product model (`Model/ExecNet.lean`) on a generated tree and stream under a canonical global
schedule until no action is enabled, and reports per node what the component states say was received and counted.
The `flow-*` drivers compare this with the real executor's observation (and with the denotational `Flow` model), so the
executable definitions `Exec.step` / `Exec.gstep` themselves — not only their skeleton — are run against the
implementation on the same inputs.

Events are strings in the harness and `Nat` in the component model: `enc`/`dec` is a bijection between byte strings and
`Nat` (base 257 with digits 1…256), so the outcome oracle of a node is the harness oracle conjugated with it.
-/
namespace Firebolt.FlowNet
open Firebolt Firebolt.Flow Firebolt.Exec

def enc (s : String) : Nat := s.toUTF8.foldl (fun n b => n * 257 + (b.toNat + 1)) 0

partial def decBytes (n : Nat) (acc : List UInt8) : List UInt8 :=
  if n = 0 then acc else decBytes (n / 257) (UInt8.ofNat (n % 257 - 1) :: acc)

def dec (n : Nat) : String := (String.fromUTF8? ⟨(decBytes n []).toArray⟩).getD "?"

def enabledKids (cs : List FNode) : List FNode := cs.filter (fun c => !c.spec.disabled)

/-- the node reached from `n` by the root-first index list; the flag says it is an error handler -/
def descend : FNode → Bool → List Nat → Option (FNode × Bool)
  | n, h, [] => some (n, h)
  | .mk _ cs hd, isH, k :: rest =>
    if isH then none
    else
      let kids := enabledKids cs
      match kids[k]? with
      | some c => descend c false rest
      | none => if k = kids.length then (match hd with | some h => descend h true rest | none => none) else none

def nodeAt (roots : List FNode) : List Nat → Option (FNode × Bool)
  | [] => none
  | k :: rest => match (enabledKids roots)[k]? with | some n => descend n false rest | none => none

def convert : Flow.Outcome → Exec.Outcome
  | .pass rs => .pass (rs.map enc)
  | .filter => .filter
  | .error => .error

def deadCfg : Cfg := { W := 1, nChildren := 0, hasHandler := false, async := false, oracle := fun _ => .filter }

/-- the component configuration at a path (innermost index first); `[]` is the main loop -/
def cfgAt (o : Oracle) (roots : List FNode) (p : Path) : Cfg :=
  match p.reverse with
  | [] => { W := 1, nChildren := (enabledKids roots).length, hasHandler := false, async := false, oracle := fun e => .pass [e] }
  | l =>
    match nodeAt roots l with
    | none => deadCfg
    | some (.mk s cs h, isH) =>
      { W := s.workers, nChildren := if isH then 0 else (enabledKids cs).length, hasHandler := !isH && h.isSome,
        async := s.kind = .async,
        oracle := fun e => convert (o s (if isH then errPayload (dec e) else dec e)) }

/-- all paths of the tree, parents before children -/
partial def allPaths (cfg : Path → Cfg) (frontier : List Path) (acc : List Path) : List Path :=
  match frontier with
  | [] => acc.reverse
  | p :: rest => allPaths cfg (rest ++ (List.range (cfg p).K).map (fun k => k :: p)) (p :: acc)

def tableFn {α} (l : Array α) (d : α) : Nat → α := fun i => l.getD i d

/-- rebuild the function-valued fields of a component state from finite tables (keeps closures shallow) -/
def compactSt (c : Cfg) (s : St) : St :=
  let ks := List.range (c.K + 1)
  let d : Chan := {}
  { s with
    outs := tableFn (ks.map s.outs).toArray d,
    pc := tableFn ((List.range (c.W + 1)).map s.pc).toArray .exited,
    discarded := tableFn (ks.map s.discarded).toArray 0,
    produced := tableFn (ks.map s.produced).toArray [],
    offered := tableFn (ks.map s.offered).toArray [],
    enq := tableFn (ks.map s.enq).toArray [],
    dropped := tableFn (ks.map s.dropped).toArray [],
    deq := tableFn (ks.map s.deq).toArray [] }

def compact (paths : List Path) (N : Net) : Net :=
  let tbl := paths.map (fun p => (p, compactSt (N.cfg p) (N.st p)))
  let d := N.st [999999]
  { N with st := fun p => match tbl.find? (fun x => x.1 == p) with | some x => x.2 | none => d }

/-- the actions a node might be able to take, from the program counters of its workers -/
def candidates (c : Cfg) (s : St) : List Act :=
  (List.range c.W).flatMap (fun w =>
    match s.pc w with
    | .idle => [.recv w, .seeClosed w]
    | .proc _ => [.procReturn w]
    | .deliver (_ :: _) => [.send w]
    | .deliver [] => [.finish w]
    | .c1 => [.wgDone w]
    | .c2 => [.wgWait w]
    | .c3 => [.onceEnter w]
    | .hSh => [.shutEnter w]
    | .hShIn => [.shutExit w]
    | .hClose => [.closeAll w]
    | .exited => []) ++
  (if s.pending.isEmpty then [] else [.complete 0]) ++
  (match s.cbs with | [] => [] | [] :: _ => [.cbFinish 0] | (_ :: _) :: _ => [.cbSend 0])

def firstEnabled (N : Net) : List Path → Option Net
  | [] => none
  | p :: rest =>
    match (candidates (N.cfg p) (N.st p)).findSome? (fun a => gstep N p a) with
    | some N' => some N'
    | none => firstEnabled N rest

/-- canonical schedule: the node closest to the leaves that can move, moves (deepest paths first) -/
partial def runToQuiescence (paths : List Path) (N : Net) (fuel : Nat) (sinceCompact : Nat) : Net × Bool :=
  if fuel = 0 then (N, false)
  else
    match firstEnabled N paths with
    | none => (N, true)
    | some N' =>
      if sinceCompact ≥ 48 then runToQuiescence paths (compact paths N') (fuel - 1) 0
      else runToQuiescence paths N' (fuel - 1) (sinceCompact + 1)

structure NodeResult where
  idx : Nat
  recv : List String
  received : Nat
  processed : Nat
  filtered : Nat
  failed : Nat
  shutdowns : Nat
deriving Repr, Inhabited

/-- run the product model on `stream`; `none` if it does not reach global quiescence within the fuel -/
def simulate (o : Oracle) (roots : List FNode) (stream : List String) : Option (List NodeResult) :=
  let cfg := cfgAt o roots
  let paths := allPaths cfg [[]] []
  let N0 := ginit cfg (fun _ => 1) (fun _ => false)
  -- the source hands over its stream, then ends
  let fed := (stream.foldl (fun (n : Option Net) e => n.bind (fun N => gstep N [] (.upSend (enc e)))) (some N0)).bind (fun N => gstep N [] .upClose)
  match fed with
  | none => none
  | some N1 =>
    let order := paths.reverse
    let (N, quiet) := runToQuiescence order (compact paths N1) (400 * (stream.length + 2) * (paths.length + 1)) 0
    let terminal := paths.all (fun p => (List.range (N.cfg p).W).all (fun w => (N.st p).pc w == .exited) && (N.st p).cbs.isEmpty && (N.st p).pending.isEmpty)
    if !quiet || !terminal then none
    else
      some (paths.filterMap (fun p =>
        match nodeAt roots p.reverse with
        | none => none
        | some (.mk s _ _, isH) =>
          let st := N.st p
          some { idx := s.idx, recv := st.recvd.map (fun e => if isH then errPayload (dec e) else dec e), received := st.received,
                 processed := st.processed, filtered := st.filtered, failed := st.failed, shutdowns := if st.shutDone then 1 else 0 }))

end Firebolt.FlowNet
