import Driver.Offsets
import Driver.Tracker
import Driver.Params
import Driver.Recovery
import Driver.Receiver
import Driver.Config
import Driver.Route
import Driver.Producer
import Driver.EsSink
import Driver.RateLimit
import Driver.Flow
import Driver.Supervise
import Driver.Timeout
import Driver.SetupParams
import Driver.Wiring
import Driver.TransCheck
/-!
fbdriver: reads `<id>\t<input>\t<impl observation>` lines on stdin, runs the model of the chosen
component on `<input>` and prints one verdict line per case:

  <id>\tOK|DIFF|SPEC|DIFF+SPEC|BAD\t<model observation>\t<spec clause or ->\t<scope>\t<tags>

DIFF  = model and implementation observations differ (correspondence broken on this input)
SPEC  = the property's Spec predicate is false on the implementation's observation (a failing input)
-/
open Firebolt

def dispatch (comp : String) : Option (String → String → Verdict) :=
  match comp with
  | "offsets" => some Offsets.check
  | "tracker" => some Tracker.check
  | "params" => some Params.check
  | "recovery" => some Recovery.check
  | "receiver" => some Receiver.check
  | "config" => some Config.check
  | "route" => some Route.check
  | "producer" => some Producer.check
  | "essink" => some EsSink.check
  | "ratelimit" => some Limiter.check
  | "supervise" => some Supervisor.check
  | "supervise-C05" => some Supervisor.check
  | "timeout" => some MainLoop.check
  | "setupparams" => some SetupParams.check
  | "wiring" => some Wiring.check
  | "flow-C01" => some (ExecTrace.check "C01")
  | "flow-C02" => some (ExecTrace.check "C02")
  | "flow-C03" => some (ExecTrace.check "C03")
  | "flow-C04" => some (ExecTrace.check "C04")
  | "flow-C05" => some (ExecTrace.check "C05")
  | "flow-C16" => some (ExecTrace.check "C16")
  | _ => none

partial def loop (h : IO.FS.Stream) (out : IO.FS.Stream) (f : String → String → Verdict) : IO Unit := do
  let line ← h.getLine
  if line.isEmpty then return ()
  let line := (line.dropEndWhile (fun c => c == '\n' || c == '\r')).toString
  if line.isEmpty then
    loop h out f
  else
    match line.splitOn "\t" with
    | [id, input, impl] =>
      let v := f input impl
      let diff := v.model != (v.implView.getD impl)
      let st := match diff, v.spec with
        | false, none => "OK"
        | true, none => "DIFF"
        | false, some _ => "SPEC"
        | true, some _ => "DIFF+SPEC"
      out.putStrLn s!"{id}\t{st}\t{v.model}\t{v.spec.getD "-"}\t{if v.inScope then "in" else "out"}\t{joinWith "," v.tags}"
    | _ => out.putStrLn s!"?\tBAD\t-\t-\t-\t-"
    loop h out f

def main (args : List String) : IO UInt32 := do
  match args with
  | "transcheck" :: rest =>
    -- counterexample search over the translated fragments (no stdin): fbdriver transcheck [seed [samples]]
    let seed := (rest.head? >>= String.toNat?).getD 1
    let n := (rest.tail.head? >>= String.toNat?).getD 3000
    for l in TransCheck.runAll seed n do IO.println l
    return 0
  | [comp] =>
    match dispatch comp with
    | some f =>
      loop (← IO.getStdin) (← IO.getStdout) f
      return 0
    | none => IO.eprintln s!"unknown component {comp}"; return 2
  | _ => IO.eprintln "usage: fbdriver <component> < cases"; return 2
