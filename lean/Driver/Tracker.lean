import Firebolt.Spec.Tracker
/-! line-protocol adapter for component `tracker` (C08) -/
namespace Firebolt.Tracker
open Firebolt

def parseSnap (s : String) : Option Snap :=
  if s == "-" then some [] else
  (fields s ",").mapM (fun x => (parsePair x).map (fun p => (⟨p.1, p.2⟩ : Req)))

def parseKey (s : String) : Option (Option Int) :=
  if s == "x" then some none else s.toInt?.map some

def parseOp (s : String) : Option Op :=
  match words s with
  | ["add", p, f, t] => do pure (.add (← p.toInt?) (← f.toInt?) (← t.toInt?))
  | ["upd", p, f, t] => do pure (.upd (← p.toInt?) (← f.toInt?) (← t.toInt?))
  | ["done", p, t] => do pure (.done (← p.toInt?) (← t.toInt?))
  | ["cancel"] => some .cancel
  | ["get", p] => do pure (.get (← p.toInt?))
  | ["recv", k, l] => do pure (.recv (← parseKey k) (← parseSnap l))
  | ["recvbad", k] => do pure (.recvBad (← parseKey k))
  | _ => none

def renderOut : ObsOut → String
  | .bc ok m => (if ok then "ok " else "err ") ++ showMap m
  | .got none => "G none"
  | .got (some r) => "G " ++ showPair r
  | .unit => "."

def renderAll (outs : List ObsOut) (fin : Final) : String :=
  joinWith " ; " (outs.map renderOut) ++ s!" # A={showMap fin.a} Ball={showMap fin.ball} Blast={showMap fin.blast}"

def parseOut (s : String) : Option ObsOut :=
  match words s with
  | ["ok", m] => (parseMap m).map (.bc true)
  | ["err", m] => (parseMap m).map (.bc false)
  | ["G", "none"] => some (.got none)
  | ["G", r] => (parsePair r).map (fun p => .got (some p))
  | ["."] => some .unit
  | _ => none

def parseObs (s : String) : Option (List ObsOut × Final) :=
  match s.splitOn "#" with
  | [a, b] => do
    let outs ← (fields a ";").mapM parseOut
    let toks := words b
    let fa ← (kvGet toks "A") >>= parseMap
    let fb ← (kvGet toks "Ball") >>= parseMap
    let fc ← (kvGet toks "Blast") >>= parseMap
    pure (outs, ⟨fa, fb, fc⟩)
  | _ => none

def opTag : Op → Out → List String
  | .add .., .bcast _ [(_, l)] => [if l.length > 1 then "add-multi" else "add"]
  | .upd .., .bcast ok _ => [if ok then "upd-ok" else "upd-err"]
  | .done .., .bcast ok _ => [if ok then "done-ok" else "done-err"]
  | .cancel, _ => ["cancel"]
  | .get _, .got r => [if r.isSome then "get-some" else "get-none"]
  | .recv k _, _ => [if k.isSome then "recv" else "recv-badkey"]
  | .recvBad _, _ => ["recv-badpayload"]
  | _, _ => []

def mergeTags (ops : List Op) : List String :=
  -- did any add merge (list did not grow)?
  let rec go (s : Store) : List Op → List String
    | [] => []
    | op :: rest =>
      let t := match op with
        | .add p f t => if ((s.get? p).getD []).any (overlaps f t) then ["add-merged"] else []
        | _ => []
      t ++ go (step s op).1 rest
  go [] ops

/-- `padd p f1 t1 f2 t2`: two requests for the same partition filed concurrently, the first caller's broadcast stalling in
the transport; the tracker serialises them (the first caller holds the lock), so it is two `add`s in that order -/
def parseOps (s : String) : Option (List Op) :=
  match words s with
  | ["padd", p, f1, t1, f2, t2] => do
    let p ← p.toInt?
    pure [.add p (← f1.toInt?) (← t1.toInt?), .add p (← f2.toInt?) (← t2.toInt?)]
  | _ => (parseOp s).map (fun o => [o])

def check (input impl : String) : Verdict :=
  match ((fields input ";").mapM parseOps).map List.flatten with
  | none => { model := "bad-input" }
  | some ops =>
    let (outs, fin) := modelRun ops
    let scope := inScope ops
    let sp := if scope then
        match parseObs impl with
        | none => some "unparsable-observation"
        | some (o, f) => spec ops o f
      else none
    let raw := (run [] ops).2
    let tags := ((ops.zip raw).flatMap (fun x => opTag x.1 x.2) ++ mergeTags ops).eraseDups
    { model := renderAll outs fin, spec := sp, inScope := scope, tags := tags ++ (if input.contains "padd" then ["concurrent-adds"] else []) }

end Firebolt.Tracker
