import Firebolt.Model.Limiter
/-! line-protocol adapter for component `ratelimit` (C19, runtime part): elapsed wall-clock time of `n` recovery emissions
through the really-constructed limiter against the token-bucket lower bound of `Model/Limiter.lean`.
input: "rate <r> parts <k> n <n>"   observation: "elapsedMs=<ms> emitted=<n> flagged=<n> mainMs=<ms> mainN=<n> limit=<r> burst=<b>" -/
namespace Firebolt.Limiter
open Firebolt

def check (input impl : String) : Verdict :=
  match words input with
  | "rate" :: r :: "parts" :: k :: "n" :: n :: modeToks =>
    match r.toNat?, k.toNat?, n.toNat? with
    | some r, some _k, some n0 =>
      let toks := words impl
      let get (key : String) : Nat := ((kvGet toks key) >>= (·.toNat?)).getD 0
      let mode := modeToks.headD ""
      -- the number of recovery records that must have been emitted: all of them, except after a revocation (those emitted so far)
      let n := if mode == "revoke" then get "emitted" else if mode == "seq" then get "n" else n0
      let bound := minElapsedMs r 100 n
      let sp : Option String :=
        if kvGet toks "elapsedMs" == none then some "unparsable-observation"
        else if get "emitted" ≠ n then some "recovery-events-lost"
        else if get "flagged" ≠ n then some "recovery-events-not-flagged"
        else if get "limit" ≠ r || get "burst" ≠ 100 then some "limiter-not-built-from-configuration"
        else if get "elapsedMs" * 100 < bound * 90 then some "rate-exceeded"
        else if get "mainMs" > 2000 then some "main-consumer-delayed"
        else if mode == "revoke" && (kvGet toks "revokeMs" == some "-1" || get "revokeMs" > 300) then some "main-consumer-delayed-by-recovery-limit"
        else if mode == "seq" && n ≠ n0 then some "recovery-events-lost"
        else none
      -- timing is not predicted: the model observation is the implementation's, judged by the bound
      { model := impl, spec := sp, tags := [s!"rate{r}", if _k > 1 then "multi-partition" else "one-partition"] ++ (if mode == "" then [] else [mode]) }
    | _, _, _ => { model := "bad-input" }
  | _ => { model := "bad-input" }

end Firebolt.Limiter
