import Firebolt.TransExpected
/-!
`fbdriver transcheck [<seed> [<samples>]]`: for every exact `translated_*` theorem, evaluates the translated term (as regenerated
from /repo just now) and the expected observation on sampled environments and prints the first environment on which they
differ.  Run by the orchestrator when a `translated_*` obligation no longer checks: a proof that fails says "not shown";
this says *where* the code now does something else, in terms of the variables, fields and call results of the Go function.
One line per case:  `<name>\tOK\t<samples>`  or  `<name>\tCEX\t<x=v;…>\tgot=<obs>\texpected=<obs>`.
-/
namespace Firebolt.TransCheck
open Firebolt Firebolt.MiniGo Firebolt.TransExpected

def xorshift (s : Nat) : Nat :=
  let m := 2^64
  let s := (s ^^^ (s <<< 13)) % m
  let s := s ^^^ (s >>> 7)
  (s ^^^ (s <<< 17)) % m

def pool (lits : List Int) : List Int :=
  ([0, 1, -1, 2, 3, 5, 10, 99, 100, 101, 1000, -1001, 50000, 50001, 2^62, 2^63 - 1, -(2^63)] ++
    lits.flatMap (fun n => [n - 1, n, n + 1])).eraseDups

def dedup (l : List String) : List String := l.eraseDups

/-- assign every variable a value from the pool, driven by the PRNG state -/
def sample (vars : List String) (vals : List Int) (s : Nat) : List (String × Int) × Nat :=
  vars.foldl (fun (acc : List (String × Int) × Nat) x =>
    let s' := xorshift acc.2
    -- which clause of a `select` / type switch fires is a small index; boolean-like inputs are mostly 0 / 1
    let v : Int := if x == "select#0" || x == "typeswitch#0" then ((s' % 5 : Nat) : Int) else vals.getD (s' % vals.length) 0
    (acc.1 ++ [(x, v)], s')) ([], s)

def envOf (a : List (String × Int)) : Env := fun x => ((a.find? (·.1 == x)).map (·.2)).getD 0

def showObs (o : Obs) : String :=
  let cs := o.calls.map (fun c => c.1 ++ "(" ++ joinWith "," (c.2.map toString) ++ ")")
  "calls=[" ++ joinWith "; " cs ++ "] ret=" ++ (match o.ret with | none => "-" | some l => "[" ++ joinWith "," (l.map toString) ++ "]") ++
    (if o.stuck then " STUCK" else "")

def checkCase (c : Case) (seed n : Nat) : String :=
  let vars := dedup c.term.vars
  let vals := pool c.term.lits
  let rec go (k : Nat) (s : Nat) (tried : Nat) : String :=
    match k with
    | 0 => s!"{c.name}\tOK\t{tried}"
    | k + 1 =>
      let (a, s') := sample vars vals s
      let σ := envOf a
      if !c.pre σ then go k s' tried
      else
        let got := obs c.term σ
        let exp := c.expected σ
        if got == exp then go k s' (tried + 1)
        else
          let asg := joinWith ";" ((a.filter (fun kv => kv.2 != 0)).map (fun kv => kv.1 ++ "=" ++ toString kv.2))
          s!"{c.name}\tCEX\t{asg} (every other variable 0)\tgot={showObs got}\texpected={showObs exp}"
  go n (seed * 2654435761 % 2^64 + 88172645463325252) 0

def runAll (seed n : Nat) : List String := cases.map (fun c => checkCase c seed n)

end Firebolt.TransCheck
