import Firebolt.Model.MainLoop
/-! line-protocol adapter for component `timeout` (C17, runtime part).
input: "to <timeoutSec> stall=<root|inner|leaf|handler|none>:<forever|long> n=<events> fill=<0|1> pw=<parent workers> hw=<handler workers>"
observation: "returned=<0|1> retMs=<ms between the source's Start returning and Execute returning>" -/
namespace Firebolt.MainLoop
open Firebolt

def check (input impl : String) : Verdict :=
  match words input with
  | "to" :: t :: rest =>
    match t.toNat? with
    | some t =>
      let stall := ((kvGet rest "stall").getD "none:forever")
      let none_ := stall.startsWith "none"
      let fill := kvGet rest "fill" == some "1"
      let toks := words impl
      let returned := kvGet toks "returned" == some "1"
      let ms := ((kvGet toks "retMs") >>= (·.toNat?)).getD 0
      -- the model: with every buffer full back to the source the main goroutine is blocked and Execute does not return (F6)
      let predReturned := !(fill && !none_)
      let sp : Option String :=
        if !returned then (if fill then some "did-not-return-with-buffers-full-to-the-source" else some "did-not-return-within-timeout")
        else if !none_ && ms > (t + 2) * 1000 then some "returned-later-than-timeout-plus-margin"
        else if none_ && ms ≥ t * 1000 then some "waited-out-the-timeout-although-all-nodes-finished"
        else none
      { model := s!"returned={showB predReturned}", implView := some s!"returned={showB returned}", spec := sp,
        tags := [(stall.takeWhile (· != ':')).toString, s!"timeout{t}"] ++ (if fill then ["buffers-full"] else []) }
    | none => { model := "bad-input" }
  | _ => { model := "bad-input" }

end Firebolt.MainLoop
