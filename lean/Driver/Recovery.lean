import Firebolt.Spec.Recovery
import Driver.Tracker
/-! line-protocol adapter for component `recovery` (C07, C09, C19 wiring) -/
namespace Firebolt.Recovery
open Firebolt Firebolt.Tracker

def parseInts (s : String) : Option (List Int) := if s == "-" then some [] else (fields s ",").mapM (·.toInt?)

def parseOp (s : String) : Option Op :=
  match words s with
  | ["poll", p] => do pure (.poll (← p.toInt?))
  | ["msg", p, o] => do pure (.msg (← p.toInt?) (← o.toInt?))
  | ["main", p, o] => do pure (.main (← p.toInt?) (← o.toInt?))
  | ["kerr", b] => some (.kerr (boolOf b))
  | ["low", p, v] => do pure (.setLow (← p.toInt?) (← v.toInt?))
  | ["refresh"] => some .refresh
  | ["own", ps] => do pure (.own (← parseInts ps))
  | ["revoke"] => some .revoke
  | ["req", p, f, t] => do pure (.req (← p.toInt?) (← f.toInt?) (← t.toInt?))
  | ["recv", p, l] => do pure (.recv (← p.toInt?) (← parseSnap l))
  | ["crash"] => some .crash
  | _ => none

def sortPairs (l : List (Int × Int)) : List (Int × Int) := sortByKey l

def callStr : List Call → String
  | [] => ""
  | .unassign :: r => "U" ++ callStr r
  | .assign _ :: r => "A" ++ callStr r

def lastAssign (cs : List Call) : Option (List (Int × Int)) :=
  cs.foldl (fun acc c => match c with | .assign l => some (sortPairs l) | .unassign => acc) none

def obsOf (o : Out) : ObsOp :=
  { recE := (o.emits.filter (·.recovery)).map (fun e => (e.p, e.o)),
    mainE := (o.emits.filter (fun e => !e.recovery)).map (fun e => (e.p, e.o)),
    calls := callStr o.calls, assign := lastAssign o.calls,
    bcasts := sortByKey (o.bcasts.map (fun b => (b.1, snapP b.2))) }

def renderOp (o : ObsOp) : String :=
  let parts :=
    (if o.recE.isEmpty then [] else [s!"r={showPairs o.recE}"]) ++
    (if o.mainE.isEmpty then [] else [s!"m={showPairs o.mainE}"]) ++
    (if o.calls.isEmpty then [] else [s!"c={o.calls}"]) ++
    (match o.assign with | none => [] | some a => [s!"a={showPairs a}"]) ++
    (if o.bcasts.isEmpty then [] else [s!"b={showMap o.bcasts}"])
  if parts.isEmpty then "." else joinWith " " parts

def parseObsOp (s : String) : Option ObsOp :=
  let toks := words s
  if toks == ["."] then some {} else do
    let r ← match kvGet toks "r" with | none => some [] | some x => parsePairs x
    let m ← match kvGet toks "m" with | none => some [] | some x => parsePairs x
    let a ← match kvGet toks "a" with | none => some none | some x => (parsePairs x).map some
    let b ← match kvGet toks "b" with | none => some [] | some x => parseMap x
    pure { recE := r, mainE := m, calls := (kvGet toks "c").getD "", assign := a, bcasts := b }

def renderFinal (s : St) : String :=
  let act := sortByKey s.active
  s!"actA={showPairs (act.map (fun a => (a.1, a.2.assignOff)))} actF={showMap (act.map (fun a => (a.1, [(a.2.fromO, a.2.toO)])))} tr={showMap (storeP s.tracker)} cur={showPairs (sortByKey s.cursor)} own={showPairs (s.owned.map (fun p => (p, 0)))}"

def opTags (s : St) (op : Op) (o : Out) : List String :=
  match op with
  | .poll p | .msg p _ =>
    let base := match op with | .poll _ => "poll" | _ => "msg"
    if !o.emits.isEmpty then [base ++ "-emit"] ++ (if !o.bcasts.isEmpty then ["progress-broadcast"] else [])
    else if !o.bcasts.isEmpty then ["completed"] ++ (if o.calls.isEmpty then [] else ["complete-reassign"])
    else if (s.active.get? p).isNone then [base ++ "-inactive"] else [base ++ "-below-from"]
  | .main .. => ["main"]
  | .kerr true => if o.bcasts.isEmpty then ["trunc-noop"] else ["trunc-update"]
  | .kerr false => ["kerr-other"]
  | .refresh => [if o.calls.isEmpty then "refresh-same" else "refresh-change"]
  | .revoke => [if o.calls.isEmpty then "revoke-same" else "revoke-change"]
  | .req .. => ["req"]
  | .recv .. => ["recv"]
  | .crash => ["crash"]
  | _ => []

def check (input impl : String) : Verdict :=
  match fields input ";" with
  | hd :: rest =>
    match words hd, rest.mapM parseOp with
    | ["cfg", mr, rate], some ops =>
      match mr.toInt?, rate.toInt? with
      | some mr, some rate =>
        let s0 : St := { maxRecords := mr, updateEvery := 5 * rate }
        let (sf, outs) := run s0 ops
        let model := joinWith " ; " (outs.map (fun o => renderOp (obsOf o))) ++ " # " ++ renderFinal sf
        let scope := ops.all opInScope && decide (1 ≤ rate) && decide (1 ≤ mr)
        let sp := if !scope then none else
          match impl.splitOn "#" with
          | [a, _] => match (fields a ";").mapM parseObsOp with
            | some obs => specRun {} ops obs
            | none => some "unparsable-observation"
          | _ => some "unparsable-observation"
        -- tags: replay the model stepwise
        let rec tg (s : St) : List Op → List String
          | [] => []
          | op :: r => let (s', o) := step s op; opTags s op o ++ tg s' r
        { model := model, spec := sp, inScope := scope, tags := (tg s0 ops).eraseDups }
      | _, _ => { model := "bad-input" }
    | _, _ => { model := "bad-input" }
  | _ => { model := "bad-input" }

end Firebolt.Recovery
