import Firebolt.Spec.Recovery
import Driver.Tracker
/-! line-protocol adapter for component `recovery` (C07, C09, C19 wiring) -/
namespace Firebolt.Recovery
open Firebolt Firebolt.Tracker

def parseInts (s : String) : Option (List Int) := if s == "-" then some [] else (fields s ",").mapM (·.toInt?)

def parseOp (s : String) : Option Op :=
  match words s with
  | ["poll", p] => do pure (.poll (← p.toInt?))
  | ["msg", p, o] => do pure (.msg (← p.toInt?) (← o.toInt?))
  | ["main", p, o] => do pure (.main (← p.toInt?) (← o.toInt?))
  | ["kerr", b] => some (.kerr (boolOf b))
  | ["low", p, v] => do pure (.setLow (← p.toInt?) (← v.toInt?))
  | ["refresh"] => some .refresh
  | ["refresh&"] => some .refresh        -- a refresh still in its broker round trip when the next op (a revocation) arrives: serialised, refresh first
  | ["own", ps] => do pure (.own (← parseInts ps))
  | ["revoke"] => some .revoke
  | ["revokex"] => some .revoke          -- a revocation during which the main client's Unassign fails: the same to the recovery consumer
  | ["req", p, f, t] => do pure (.req (← p.toInt?) (← f.toInt?) (← t.toInt?))
  | ["recv", p, l] => do pure (.recv (← p.toInt?) (← parseSnap l))
  | ["crash"] => some .crash
  | _ => none

/-- driver-level ops: besides the model's ops, records that sit prefetched in the client's event queue (`queue p o`) and
one iteration of the consumer's event loop on that queue (`handle`).  They are expanded into model ops while threading
the model state: `Unassign` (any refresh that changes the assignment) empties the queue, as the code drains it; a handled
record is an arbitrary delivered record (`msg`); everything else about the queue is unobservable (`kerr false` = no-op). -/
inductive ROp where
  | op (o : Op)
  | queue (p o : Int)
  | handle

def parseROp (s : String) : Option ROp :=
  match words s with
  | ["queue", p, o] => do pure (.queue (← p.toInt?) (← o.toInt?))
  | ["handle"] => some .handle
  | _ => (parseOp s).map .op

def drainedBy (o : Out) : Bool := o.calls.any (fun c => match c with | .unassign => true | _ => false)

def expand (s : St) (q : List (Int × Int)) : List ROp → List Op
  | [] => []
  | .queue p o :: r => .kerr false :: expand s (q ++ [(p, o)]) r
  | .handle :: r =>
    match q with
    | [] => .kerr false :: expand s [] r
    | (p, o) :: q' =>
      let so := step s (.msg p o)
      .msg p o :: expand so.1 (if drainedBy so.2 then [] else q') r
  | .op o :: r =>
    let so := step s o
    let isCrash := match o with | .crash => true | _ => false
    o :: expand so.1 (if drainedBy so.2 || isCrash then [] else q) r

def renderOp (o : ObsOp) : String :=
  let parts :=
    (if o.recE.isEmpty then [] else [s!"r={showPairs o.recE}"]) ++
    (if o.mainE.isEmpty then [] else [s!"m={showPairs o.mainE}"]) ++
    (if o.calls.isEmpty then [] else [s!"c={o.calls}"]) ++
    (match o.assign with | none => [] | some a => [s!"a={showPairs a}"]) ++
    (if o.bcasts.isEmpty then [] else [s!"b={showMap o.bcasts}"])
  if parts.isEmpty then "." else joinWith " " parts

def parseObsOp (s : String) : Option ObsOp :=
  let toks := words s
  if toks == ["."] then some {} else do
    let r ← match kvGet toks "r" with | none => some [] | some x => parsePairs x
    let m ← match kvGet toks "m" with | none => some [] | some x => parsePairs x
    let a ← match kvGet toks "a" with | none => some none | some x => (parsePairs x).map some
    let b ← match kvGet toks "b" with | none => some [] | some x => parseMap x
    pure { recE := r, mainE := m, calls := (kvGet toks "c").getD "", assign := a, bcasts := b }

def renderFinal (s : St) : String :=
  let act := sortByKey s.active
  s!"actA={showPairs (act.map (fun a => (a.1, a.2.assignOff)))} actF={showMap (act.map (fun a => (a.1, [(a.2.fromO, a.2.toO)])))} tr={showMap (storeP s.tracker)} cur={showPairs (sortByKey s.cursor)} own={showPairs (s.owned.map (fun p => (p, 0)))}"

def opTags (s : St) (op : Op) (o : Out) : List String :=
  match op with
  | .poll p | .msg p _ =>
    let base := match op with | .poll _ => "poll" | _ => "msg"
    if !o.emits.isEmpty then [base ++ "-emit"] ++ (if !o.bcasts.isEmpty then ["progress-broadcast"] else [])
    else if !o.bcasts.isEmpty then ["completed"] ++ (if o.calls.isEmpty then [] else ["complete-reassign"])
    else if (s.active.get? p).isNone then [base ++ "-inactive"] else [base ++ "-below-from"]
  | .main .. => ["main"]
  | .kerr true => if o.bcasts.isEmpty then ["trunc-noop"] else ["trunc-update"]
  | .kerr false => ["kerr-other"]
  | .refresh => [if o.calls.isEmpty then "refresh-same" else "refresh-change"]
  | .revoke => [if o.calls.isEmpty then "revoke-same" else "revoke-change"]
  | .req .. => ["req"]
  | .recv .. => ["recv"]
  | .crash => ["crash"]
  | _ => []

def check (input impl : String) : Verdict :=
  match fields input ";" with
  | hd :: rest =>
    match words hd, rest.mapM parseROp with
    | ["cfg", mr, rate], some rops =>
      match mr.toInt?, rate.toInt? with
      | some mr, some rate =>
        let s0 : St := { maxRecords := mr, updateEvery := 5 * rate }
        let ops := expand s0 [] rops
        let (sf, outs) := run s0 ops
        let model := joinWith " ; " (outs.map (fun o => renderOp (obsOf o))) ++ " # " ++ renderFinal sf
        let scope := ops.all opInScope && decide (1 ≤ rate) && decide (1 ≤ mr)
        let sp := if !scope then none else
          match impl.splitOn "#" with
          | [a, _] => match (fields a ";").mapM parseObsOp with
            | some obs =>
              -- a `handle` on a queue the model has emptied is judged as a no-op; name the clause after what happened
              match specRun {} ops obs with
              | some "other-error-must-be-ignored" =>
                if rops.any (fun o => match o with | .handle => true | _ => false) then some "record-of-a-replaced-assignment-still-handled"
                else some "other-error-must-be-ignored"
              | r => r
            | none => some "unparsable-observation"
          | _ => some "unparsable-observation"
        -- tags: replay the model stepwise
        let rec tg (s : St) : List Op → List String
          | [] => []
          | op :: r => let (s', o) := step s op; opTags s op o ++ tg s' r
        let qtags := if rops.any (fun o => match o with | .queue .. => true | _ => false) then ["prefetched-queue"] else []
        { model := model, spec := sp, inScope := scope, tags := ((tg s0 ops) ++ qtags).eraseDups }
      | _, _ => { model := "bad-input" }
    | _, _ => { model := "bad-input" }
  | _ => { model := "bad-input" }

end Firebolt.Recovery
