import Firebolt.Spec.Receiver
/-! line-protocol adapter for component `receiver` (C10, C12) -/
namespace Firebolt.Receiver
open Firebolt

def hexVal (c : Char) : Option Nat :=
  if '0' ≤ c ∧ c ≤ '9' then some (c.toNat - '0'.toNat)
  else if 'a' ≤ c ∧ c ≤ 'f' then some (c.toNat - 'a'.toNat + 10) else none

def unhexL : List Char → Option Bytes
  | [] => some []
  | a :: b :: rest => do
    let x ← hexVal a; let y ← hexVal b; let r ← unhexL rest
    pure ((x * 16 + y) :: r)
  | _ => none

/-- the payload the token `%<n>` stands for: n bytes of a fixed pattern (the harness has the same definition) -/
def patBytes (n : Nat) : Bytes := (List.range n).map (fun i => (i * 7 + i / 251 + 3) % 256)

def unhex (s : String) : Option Bytes :=
  if s == "-" then some []
  else if s.startsWith "%" then ((s.drop 1).toString.toNat?).map patBytes
  else unhexL s.toList

def hexDigit (n : Nat) : Char := if n < 10 then Char.ofNat (n + 48) else Char.ofNat (n - 10 + 97)

def hex (b : Bytes) : String :=
  if b.isEmpty then "-"
  else if b.length > 64 && b == patBytes b.length then s!"%{b.length}"
  else String.ofList (b.flatMap (fun x => [hexDigit (x / 16), hexDigit (x % 16)]))

def showMsg (m : Msg) : String := s!"{hex m.mtype}:{hex m.key}:{hex m.payload}"

def parseMsg3 (t k p : String) : Option Msg := do pure ⟨← unhex t, ← unhex k, ← unhex p⟩

def parseMsgTok (s : String) : Option Msg :=
  match s.splitOn ":" with
  | [t, k, p] => parseMsg3 t k p
  | _ => none

inductive HOp where
  | send (m : Msg) (ack : Bool)
  | raw (m : Msg) (ack : Bool)        -- a record written by some other instance (any `updated` timestamp), not by the local sender
  | bad
  | eof (p : Int)
  | kerr

def parseOp (s : String) : Option HOp :=
  match words s with
  | ["send", t, k, p] => (parseMsg3 t k p).map (fun m => .send m false)
  | ["ack", t, k, p] => (parseMsg3 t k p).map (fun m => .send m true)
  | ["rsend", t, k, p, _] => (parseMsg3 t k p).map (fun m => .raw m false)
  | ["rack", t, k, p, _] => (parseMsg3 t k p).map (fun m => .raw m true)
  -- records of other writers that omit optional JSON fields: no "ack"/"updated" (decodes as a send), no "payload" (empty)
  | ["rnoack", t, k, p] => (parseMsg3 t k p).map (fun m => .raw m false)
  | ["rnopl", t, k, a] => (parseMsg3 t k "-").map (fun m => .raw m (a == "1"))
  | "bad" :: _ => some .bad
  | ["eof", p] => p.toInt?.map .eof
  | ["kerr"] => some .kerr
  | _ => none

def evOf : HOp → Ev
  | .send m a => .record (some (produce m a).2)
  | .raw m a => .record (some ⟨m, a⟩)
  | .bad => .record none
  | .eof p => .eof p
  | .kerr => .kerr

def sortStrs (l : List String) : List String :=
  l.foldr (fun x acc =>
    let rec ins : List String → List String
      | [] => [x]
      | y :: ys => if x ≤ y then x :: y :: ys else y :: ins ys
    ins acc) []

/-- per-op observation: for send/ack the record key and the decoded wire fields, then the deliveries
(sorted when more than one: the catch-up batch comes out of a Go map) -/
def renderOp (op : HOp) (d : List Msg) : String :=
  let rec_ := match op with
    | .send m a => let (k, w) := produce m a; s!"K={hex k} W={showMsg w.msg}:{showB w.ack} "
    | _ => ""
  let ds := sortStrs (d.map showMsg)
  rec_ ++ (if ds.isEmpty then "." else "D=[" ++ joinWith "," ds ++ "]")

def parseDeliveries (toks : List String) : Option (List Msg) :=
  match kvGet toks "D" with
  | none => some []
  | some s => if s.startsWith "[" && s.endsWith "]" then (fields ((s.drop 1).dropEnd 1).toString ",").mapM parseMsgTok else none

def check (input impl : String) : Verdict :=
  match fields input ";" with
  | hd :: rest =>
    match words hd with
    | ["hist", n] =>
      -- a "wm …" segment scripts the watermark queries the receiver makes when it builds its assignment; catching up is
      -- defined by end-of-partition signals alone, so the model ignores it
      let rest := rest.filter (fun seg => !(words seg).head?.any (· == "wm"))
      match n.toNat?, rest.mapM parseOp with
      | some n, some ops =>
        let evs := ops.map evOf
        let (sf, ds) := run { partitionCount := n } evs
        let model := joinWith " ; " ((ops.zip ds).map (fun x => renderOp x.1 x.2)) ++ s!" # init={showB sf.initialized}"
        let scope := decide (1 ≤ n) && ops.all (fun o => match o with | .send m _ => typeInScope m | .raw m _ => typeInScope m | .eof p => decide (0 ≤ p) && decide (p < n) | _ => true)
        let sp := if !scope then none else
          match impl.splitOn "#" with
          | [a, b] =>
            let obsToks := (fields a ";").map words
            match obsToks.mapM parseDeliveries with
            | none => some "unparsable-observation"
            | some obsD =>
              -- C12 wire clauses on every produced record
              let wireBad := (ops.zip obsToks).findSome? (fun x => match x.1 with
                | .send m a =>
                  if kvGet x.2 "K" ≠ some (hex (ukey m)) then some "record-key"
                  else if kvGet x.2 "W" ≠ some s!"{showMsg m}:{showB a}" then some "wire-fields" else none
                | _ => none)
              match wireBad with
              | some e => some e
              | none =>
                match specRun { partitionCount := n } evs obsD with
                | .error e => some e
                | .ok g => if (kvGet (words b) "init") = some (showB g.caughtUp) then none else some "initialized-flag"
          | _ => some "unparsable-observation"
        let tags :=
          (if sf.initialized then ["initialized"] else ["never-initialized"]) ++
          (if ds.any (fun d => d.length > 1) then ["batch>1"] else []) ++
          (if ops.any (fun o => match o with | .bad => true | _ => false) then ["garbage"] else []) ++
          (if ops.any (fun o => match o with | .send _ true => true | .raw _ true => true | _ => false) then ["acks"] else []) ++
          (if ops.any (fun o => match o with | .raw .. => true | _ => false) then ["foreign-records"] else []) ++
          (if n > 1 then ["multi-partition"] else [])
        { model := model, spec := sp, inScope := scope, tags := tags }
      | _, _ => { model := "bad-input" }
    | ["assign"] =>
      let parts := rest.map words
      let rs := parts.mapM (fun f => match f with
        | [p, lo, hi, e] => do pure ((← p.toInt?), (← lo.toInt?), (← hi.toInt?), boolOf e)
        -- a fifth field says the metadata response carried an error for the partition: it is assigned like any other
        | [p, lo, hi, e, _] => do pure ((← p.toInt?), (← lo.toInt?), (← hi.toInt?), boolOf e)
        | _ => none)
      match rs with
      | none => { model := "bad-input" }
      | some rs =>
        let model := showPairs (rs.map (fun r => (r.1, startOffset r.2.1 r.2.2.1 r.2.2.2)))
        let scope := rs.all (fun r => !r.2.2.2 && decide (0 ≤ r.2.1) && decide (r.2.1 ≤ r.2.2.1) && decide (r.2.2.1 ≤ 2^62))
        let want := showPairs (rs.map (fun r => (r.1, specStart r.2.1 r.2.2.1)))
        { model := model, spec := if scope && impl ≠ want then some "replay-start-offset" else none, inScope := scope,
          tags := rs.flatMap (fun r => [if r.2.2.2 then "wm-error" else if r.2.2.1 - r.2.1 > 50000 then "capped" else "from-low"]) |>.eraseDups }
    | _ => { model := "bad-input" }
  | _ => { model := "bad-input" }

end Firebolt.Receiver
