import Firebolt.Spec.Config
/-! line-protocol adapter for component `config` (C13) -/
namespace Firebolt.Config
open Firebolt

def tyOf (c : Char) : Option Ty :=
  if c == 'A' then some .A else if c == 'B' then some .B else if c == 'E' then some .E
  else if c == 'Y' then some .Y else if c == 'Z' then some .Z else if c == 'I' then some .I else none

/-- the harness registry: node type `t_<c>_<p>` consumes c, produces p (N = sink); source `s_<p>`; anything else unregistered -/
def harnessRegistry : Registry :=
  { node := fun n => match n.toList with
      | ['t', '_', c, '_', p] => (tyOf c).map (fun ct => ⟨ct, tyOf p⟩)
      | _ => none,
    source := fun n => match n.toList with
      | ['s', '_', p] => tyOf p
      | _ => none }

/-- registrations a case makes itself: "R <name> <consumes> <produces>" / "RS <name> <produces>" in front of "cfg";
the latest registration of a name is the one in force -/
def tyOfS (s : String) : Option Ty := match s.toList with | [c] => tyOf c | _ => none

def withRegs : Registry → List String → Option (Registry × List String)
  | r, "R" :: name :: c :: p :: rest =>
    match tyOfS c with
    | some ct => withRegs { r with node := fun n => if n == name then some ⟨ct, tyOfS p⟩ else r.node n } rest
    | none => none
  | r, "RS" :: name :: p :: rest =>
    withRegs { r with source := fun n => if n == name then tyOfS p else r.source n } rest
  | r, toks => some (r, toks)

def unT (s : String) : String := if s == "~" then "" else s

mutual
def parseNode : Nat → List String → Option (Node × List String)
  | 0, _ => none
  | fuel + 1, "N" :: id :: name :: w :: b :: nc :: hh :: rest => do
    let w ← w.toInt?; let b ← b.toInt?; let nc ← nc.toNat?
    let (cs, rest1) ← parseNodes fuel nc rest
    if hh == "1" then
      let (h, rest2) ← parseNode fuel rest1
      pure (.mk (unT id) (unT name) w b cs (some h), rest2)
    else pure (.mk (unT id) (unT name) w b cs none, rest1)
  | _, _ => none
def parseNodes : Nat → Nat → List String → Option (List Node × List String)
  | _, 0, toks => some ([], toks)
  | 0, _, _ => none
  | fuel + 1, n + 1, toks => do
    let (c, r1) ← parseNode fuel toks
    let (cs, r2) ← parseNodes fuel n r1
    pure (c :: cs, r2)
end

def parseCfg (toks : List String) : Option Cfg :=
  match toks with
  | "cfg" :: src :: tr :: to :: nr :: rest => do
    let to ← to.toInt?; let nr ← nr.toNat?
    let (ns, left) ← parseNodes (rest.length + 2) nr rest
    if left.isEmpty then pure ⟨src, if tr == "-" then none else some (unT tr), to, ns⟩ else none
  | _ => none

mutual
def showN : Node → List String
  | .mk id _ w b cs h => s!"{if id == "" then "~" else id}:{w}:{b}" :: ((match h with | none => [] | some hn => showN hn) ++ showL cs)
def showL : List Node → List String
  | [] => []
  | c :: cs => showN c ++ showL cs
end

def render (res : Res) (c : Cfg) : String :=
  match res with
  | .ok => s!"accept t={c.timeout} [{joinWith "," (showL c.nodes)}]"
  | .reject => "reject"
  | .crash => "crash"

mutual
def countN : Node → Nat
  | .mk _ _ _ _ cs h => 1 + countL cs + (match h with | none => 0 | some hn => countN hn)
def countL : List Node → Nat
  | [] => 0
  | c :: cs => countN c + countL cs
end

def check (input impl : String) : Verdict :=
  match (withRegs harnessRegistry (words input)).bind (fun (r, toks) => (parseCfg toks).map (fun c => (r, c))) with
  | none => { model := "bad-input" }
  | some (r, c) =>
    let (res, c') := read r c
    let model := render res c'
    let cons := consistent r c
    let accepted := impl.startsWith "accept"
    let sp : Option String :=
      if accepted && !cons then
        if consistentButIds r c then
          -- only the ids are wrong: which duplicate did the validator miss?
          (if (spines (defaultsL c.nodes)).Nodup then some "duplicate-id-accepted-off-first-child-spine" else some "duplicate-id-accepted-on-first-child-spine")
        else some "inconsistent-config-accepted"
      else if !accepted && cons then some "consistent-config-rejected"
      else if accepted then
        -- defaults: compare with the statement's defaults
        let want := render .ok { c with nodes := defaultsL c.nodes, timeout := if c.timeout ≤ 0 then 10 else c.timeout }
        if impl ≠ want then some "defaults-not-filled" else none
      else none
    let dupKind := if (idsL (defaultsL c.nodes)).Nodup then [] else
      (if (spines (defaultsL c.nodes)).Nodup then ["dup-off-spine"] else ["dup-on-spine"])
    { model := model, spec := sp,
      tags := [match res with | .ok => "accept" | .reject => "reject" | .crash => "crash"] ++ dupKind ++
              (if cons then ["consistent"] else ["inconsistent"]) ++ (if countL c.nodes > 6 then ["big-tree"] else []) ++
              (if input.startsWith "R" then ["registered-again"] else []) }

end Firebolt.Config
