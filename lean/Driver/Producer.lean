import Firebolt.Model.Producer
/-! line-protocol adapter for component `producer` (C15).
input: "produce <cfgTopic|~> req <topic|~> <valuehex|-> | produce <cfgTopic|~> other"
       "report <cfgTopic|~> <isReport 0/1> <serialisable 0/1> <errkind> <a> <b> <c>"  (strings over a safe alphabet, ~ = empty) -/
namespace Firebolt.Producer
open Firebolt

def unT (s : String) : String := if s == "~" then "" else s
def tT (s : String) : String := if s == "" then "~" else s

/-- texts with characters that JSON must escape travel as `^x` tokens (same table as the harness) -/
def unTok (s : String) : String :=
  if s == "^0" then "a\x00b" else if s == "^e" then "\x1b[0m" else if s == "^b" then "x\x07" else if s == "^v" then "\x0b\x7f"
  else if s == "^u" then "\u2028" ++ String.singleton (Char.ofNat 0xE0001) else if s == "^q" then "say \"hi\" \\ <&>" else unT s

def parseErr (k a b c : String) : Option Err :=
  match k with
  | "plain" => some (.plain (unTok a))
  | "fb" => some (.fb (unTok a) (unTok b))
  | "fbinfo" => some (.fbInfo (unTok a) (unTok b))
  | "wrapped" => some (.wrapped (unTok c) (unTok a) (unTok b))
  | "ptrfb" => some (.ptrFb (unTok a) (unTok b))
  | _ => none

/-- messages are compared hex-encoded because they may contain spaces -/
def hexStr (s : String) : String :=
  let hd (n : Nat) : Char := if n < 10 then Char.ofNat (n + 48) else Char.ofNat (n - 10 + 97)
  let bs := s.toUTF8.toList
  if bs.isEmpty then "-" else String.ofList (bs.flatMap (fun x => [hd (x.toNat / 16), hd (x.toNat % 16)]))

def renderRep : RepRes → String
  | .error => "err"
  | .produced r =>
    s!"ok t={tT r.topic} keys={joinWith "," r.keys} ekeys={if r.err.hasInfo then "code,errorinfo,message" else "code,message"} code={hexStr r.err.code} msg={hexStr r.err.message} event={match r.event with | .same => "same" | .replaced => "replaced"} children=none"

def checkOp (ct : String) (op0 : String) (impl : String) : Verdict :=
  -- "ctxreport k a b c": the report is built by the executor (node.Context.handleFailure) for an event whose `Created` lies
  -- beyond year 9999, so the event itself cannot be serialised: judged as a report with an unserialisable event
  let op := match words op0 with
    | ["ctxreport", k, a, b, c] => joinWith " " ["report", "1", "0", k, a, b, c]
    | _ => op0
  match words op with
  | ["req", t, v] =>
    let r := produce (unT ct) (.request (unT t) v)
    let model := match r with | .produced d v => s!"ok t={tT d} v={v} children=none" | .error => "err"
    -- Spec: exactly one record iff some topic is known; request's topic wins; value unchanged; nothing for children
    let want := if unT t ≠ "" then s!"ok t={t} v={v} children=none" else if unT ct ≠ "" then s!"ok t={ct} v={v} children=none" else "err"
    { model := model, spec := if impl == want then none else some "produce-record",
      tags := [if unT t ≠ "" then "request-topic" else if unT ct ≠ "" then "configured-topic" else "no-topic"] }
  | ["other"] =>
    let r := produce (unT ct) .other
    { model := match r with | .produced .. => "ok" | .error => "err", spec := if impl == "err" then none else some "wrong-type-accepted", tags := ["wrong-type"] }
  | ["report", isr, ser, k, a, b, c] =>
    match parseErr k a b c with
    | none => { model := "bad-input" }
    | some e =>
      let r := report (unT ct) (boolOf isr) (boolOf ser) e
      let model := renderRep r
      -- Spec, from the statement: one record with valid JSON {timestamp,event,error{code,message[,errorinfo]}}, structured errors
      -- preserved, anything else ERR_UNKNOWN + text, even when the payload cannot be serialised
      let toks := words impl
      let sp : Option String :=
        if !boolOf isr || unT ct == "" then (if impl == "err" then none else some "report-without-record-expected")
        else if toks.head? ≠ some "ok" then some "error-report-lost"
        else if kvGet toks "keys" ≠ some "error,event,timestamp" then some "report-fields"
        else
          let structured := k == "fb" || k == "fbinfo"
          let wantCode := if structured then hexStr (unTok a) else hexStr "ERR_UNKNOWN"
          let wantMsg := if structured then hexStr (unTok b) else
            match e with | .plain m => hexStr m | .wrapped pre c m => hexStr (pre ++ ": " ++ c ++ ": " ++ m) | .ptrFb c m => hexStr (c ++ ": " ++ m) | _ => ""
          if kvGet toks "code" ≠ some wantCode then some "error-code"
          else if kvGet toks "msg" ≠ some wantMsg then some "error-message"
          else if kvGet toks "ekeys" ≠ some (if k == "fbinfo" then "code,errorinfo,message" else "code,message") then some "error-object-fields"
          else if boolOf ser && kvGet toks "event" ≠ some "same" then some "event-field"
          else if kvGet toks "t" ≠ some ct then some "report-topic"
          else none
      { model := model, spec := sp, tags := ["report-" ++ k] ++ (if boolOf ser then [] else ["unserialisable-payload"]) ++ (if boolOf isr then [] else ["not-a-report"]) }
  | _ => { model := "bad-input" }


/-- a case is "cfg <topic|~> ; op ; op ..." on one producer node; records are read back only after all ops ran -/
def check (input impl : String) : Verdict :=
  match fields input ";" with
  | hd :: ops =>
    -- "cfg <topic> bp": the client's produce channel holds one record and is drained slowly (backpressure); the property
    -- does not depend on it, so neither does the model
    let run := fun (ct : String) (bp : Bool) =>
      let obs := fields impl ";"
      let vs := (ops.zip (obs ++ List.replicate (ops.length - obs.length) "missing")).map (fun x => checkOp ct x.1 x.2)
      ({ model := joinWith " ; " (vs.map (·.model)),
         spec := if obs.length ≠ ops.length then some "observation-length" else vs.findSome? (·.spec),
         tags := (vs.flatMap (·.tags)).eraseDups ++ (if ops.length > 1 then ["sequence"] else []) ++ (if bp then ["backpressure"] else []) } : Verdict)
    match words hd with
    | ["cfg", ct] => run ct false
    | ["cfg", ct, "bp"] => run ct true
    | _ => { model := "bad-input" }
  | _ => { model := "bad-input" }

end Firebolt.Producer
