import Firebolt.Model.EsSink
/-! line-protocol adapter for component `essink` (C14).
input: "cfg <batchSize> <maxRetries> <workers> <waitMs> <mode> ; d <id> <script over o/r/m> | w | p <ms> ; ..."
mode: normal | shutdown | whole:<call> | late:<call> -/
namespace Firebolt.EsSink
open Firebolt

def outcomeOf (c : Char) : Outcome := if c == 'o' then .ok else if c == 'm' then .mapping else .retryable

/-- the script of one document: its characters, the last one repeated -/
def scriptOf (s : String) (k : Nat) : Outcome :=
  let cs := s.toList
  match cs[k]? with
  | some c => outcomeOf c
  | none => outcomeOf (cs.getLast?.getD 'o')

def showAns : Ans → String
  | .success => "ok"
  | .indexError => "E"
  | .typeError => "T"

inductive DOp where
  | doc (id : Nat) (script : String)
  | wrong
  | pause

def parseOp (s : String) : Option DOp :=
  match words s with
  | ["d", id, sc] => id.toNat?.map (fun i => .doc i sc)
  | ["d", id, sc, "e"] => id.toNat?.map (fun i => .doc i sc)   -- no index name: elasticsearch's verdict counts all the same
  | ["w"] => some .wrong
  | ["p", _] => some .pause
  | _ => none

def check (input impl : String) : Verdict :=
  match fields input ";" with
  | hd :: rest =>
    match words hd, rest.mapM parseOp with
    | ["cfg", bs, mr, w, _wait, mode], some ops =>
      match bs.toNat?, mr.toNat?, w.toNat? with
      | some bs, some mr, some _w =>
        let docs := ops.filterMap (fun o => match o with | .doc i s => some (i, s) | _ => none)
        let nWrong := (ops.filter (fun o => match o with | .wrong => true | _ => false)).length
        let starSends := mode.startsWith "whole"
        -- documents the early Shutdown drops (the partial batch the batcher still holds)
        let dropped : List Nat := if mode == "shutdown" then droppedByShutdown bs (docs.map (·.1)) else []
        let perDoc := docs.map (fun ds =>
          let (a, n) := docResult mr (scriptOf ds.2) (mr + 1) 0
          if dropped.contains ds.1 then s!"d{ds.1}=-/0"
          else s!"d{ds.1}={showAns a}/{if starSends then "*" else toString n}")
        let wrongs := (List.range nWrong).map (fun i => s!"x{i}=T/0")
        let model := joinWith " " (perDoc ++ wrongs) ++ s!" batchok=1 inflightok=1 altered=0 flushok=1 unans={dropped.length}"
        -- Spec, from the statement
        let toks := words impl
        let sp : Option String :=
          let bad := docs.findSome? (fun ds =>
            let (a, n) := docResult mr (scriptOf ds.2) (mr + 1) 0
            match kvGet toks s!"d{ds.1}" with
            | none => some "observation-missing"
            | some v =>
              match v.splitOn "/" with
              | [ans, snd] =>
                if ans == "-" then some "unanswered-after-shutdown"
                else if ans.contains '+' then some "answered-more-than-once"
                else if ans == "Ew" then some "answered-with-another-documents-error"
                else if ans == "F" then some "answer-lost-between-node-and-executor"
                else if ans ≠ showAns a then (if a == .success then some "ok-document-answered-with-error" else some "failed-document-answered-with-success")
                else if !starSends && snd ≠ toString n then
                  (if (snd.toNat?.getD 0) > n then some "sent-again-after-final-answer" else some "not-retried")
                else none
              | _ => some "unparsable-observation")
          match bad with
          | some e => some e
          | none =>
            if (List.range nWrong).any (fun i => kvGet toks s!"x{i}" ≠ some "T/0") then some "wrong-type-payload"
            else if kvGet toks "batchok" ≠ some "1" then some "batch-larger-than-batch-size"
            else if kvGet toks "inflightok" ≠ some "1" then some "more-than-index-workers-in-flight"
            else if kvGet toks "altered" ≠ some "0" then some "document-altered"
            else if kvGet toks "flushok" ≠ some "1" then some "partial-batch-not-flushed"
            else if kvGet toks "unans" ≠ some "0" then some "unanswered-after-shutdown"
            else none
        let tags := [mode.takeWhile (· != ':') |>.toString] ++
          (if docs.any (fun ds => ds.2.contains 'r') then ["retryable"] else []) ++
          (if docs.any (fun ds => ds.2.contains 'm') then ["mapping"] else []) ++
          (if docs.any (fun ds => (docResult mr (scriptOf ds.2) (mr + 1) 0).2 = mr + 1) then ["budget-exhausted"] else []) ++
          (if nWrong > 0 then ["wrong-type"] else []) ++ (if (input.splitOn " e").length > 1 then ["no-index-name"] else []) ++ (if docs.length > bs then ["multi-batch"] else [])
        { model := model, spec := sp, tags := tags }
      | _, _, _ => { model := "bad-input" }
    | _, _ => { model := "bad-input" }
  | _ => { model := "bad-input" }

end Firebolt.EsSink
