import Firebolt.Spec.ExecTrace
import Driver.FlowNet
/-! line-protocol adapter for the `flow-<property>` components (C01–C05, C16): a finished run of the real executor.
input:  "tree <seed> <nroots> N <kind> <workers> <buf> <discard> <disabled> <wP> <wT> <wF> <wE> <maxFan> <amode> <latUs> <nc> <hh> … ; stream <n> ; opts …"
        (prefix order: node, its children, then its handler; node indices are assigned in that order)
observation: "n<i>.recv=a,b|- n<i>.ctr=r,p,f,e,d n<i>.bf=k n<i>.su=k n<i>.sh=k n<i>.hw=k n<i>.seq=s,fe,le,lx,se,sx n<i>.bad=- … emitted=k returned=1 ret=seq" -/
namespace Firebolt.ExecTrace
open Firebolt Firebolt.Flow

def kindOf (s : String) : Kind := if s == "fanout" then .fanout else if s == "async" || s == "hasync" then .async else .sync

mutual
def parseN (seed : UInt32) : Nat → Nat → List String → Option (FNode × Nat × List String)
  | 0, _, _ => none
  | fuel + 1, idx, "N" :: kind :: w :: b :: dc :: ds :: wp :: wt :: wf :: we :: mf :: _am :: _lat :: nc :: hh :: rest => do
    let w ← w.toNat?; let b ← b.toNat?; let wp ← wp.toNat?; let wt ← wt.toNat?; let wf ← wf.toNat?; let we ← we.toNat?
    let mf ← mf.toNat?; let nc ← nc.toNat?
    let spec : NSpec := ⟨idx, kindOf kind, w, b, boolOf dc, boolOf ds, seed, wp, wt, wf, we, mf⟩
    let (cs, idx1, r1) ← parseL seed fuel (idx + 1) nc rest
    if hh == "1" then
      let (h, idx2, r2) ← parseN seed fuel idx1 r1
      pure (.mk spec cs (some h), idx2, r2)
    else pure (.mk spec cs none, idx1, r1)
  | _, _, _ => none
def parseL (seed : UInt32) : Nat → Nat → Nat → List String → Option (List FNode × Nat × List String)
  | _, idx, 0, toks => some ([], idx, toks)
  | 0, _, _, _ => none
  | fuel + 1, idx, n + 1, toks => do
    let (c, i1, r1) ← parseN seed fuel idx toks
    let (cs, i2, r2) ← parseL seed fuel i1 n r1
    pure (c :: cs, i2, r2)
end

mutual
def specsN : FNode → List NSpec
  | .mk s cs h => s :: (specsL cs ++ (match h with | none => [] | some x => specsN x))
def specsL : List FNode → List NSpec
  | [] => []
  | c :: cs => specsN c ++ specsL cs
end

def natList (s : String) : List Nat := (fields s ",").map (fun x => x.toNat?.getD 0)

def parseNodeObs (toks : List String) (i : Nat) : NodeObs :=
  let g (k : String) : String := (kvGet toks s!"n{i}.{k}").getD ""
  let recv := let r := g "recv"; if r == "-" || r == "" then [] else fields r ","
  let c := natList (g "ctr")
  let q := natList (g "seq")
  { recv := recv, received := c.getD 0 0, processed := c.getD 1 0, filtered := c.getD 2 0, failed := c.getD 3 0, discarded := c.getD 4 0,
    bufferFull := (g "bf").toNat?.getD 0, setups := (g "su").toNat?.getD 0, shutdowns := (g "sh").toNat?.getD 0, highWater := (g "hw").toNat?.getD 0,
    seqSetup := q.getD 0 0, seqFirstEnter := q.getD 1 0, seqLastEnter := q.getD 2 0, seqLastExit := q.getD 3 0, seqShutEnter := q.getD 4 0,
    seqShutExit := q.getD 5 0, bad := let b := g "bad"; if b == "" then "missing" else b }

def sortS (l : List String) : List String :=
  l.foldr (fun x acc =>
    let rec ins : List String → List String
      | [] => [x]
      | y :: ys => if x ≤ y then x :: y :: ys else y :: ins ys
    ins acc) []

def showRecv (l : List String) : String := if l.isEmpty then "-" else joinWith "," (sortS l)

/-- the deterministic view of one node for a given property: what the model predicts and what is compared -/
def viewOf (prop : String) (i : Nat) (recv : List String) (setUp : Bool) (r p f e d : Nat) : String :=
  let recvS := s!"n{i}.recv={showRecv recv}"
  let ctrS := s!"n{i}.ctr={r},{p},{f},{e},{d}"
  let suS := s!"n{i}.su={if setUp then 1 else 0}"
  match prop with
  | "C16" => ctrS
  | "C05" => suS
  | "C03" => s!"{recvS} n{i}.sh={if setUp then 1 else 0}"
  | _ => s!"{recvS} {suS}"

def anyDiscard (specs : List NSpec) : Bool := specs.any (fun s => s.discard && !s.disabled)

def check (prop : String) (input impl : String) : Verdict :=
  match fields input ";" with
  | hd :: rest =>
    match words hd with
    | "tree" :: seed :: nr :: toks =>
      match seed.toNat?, nr.toNat? with
      | some seed, some nr =>
        match parseL (UInt32.ofNat seed) (toks.length + 2) 0 nr toks with
        | some (roots, _, []) =>
          let n := ((rest.findSome? (fun s => match words s with | ["stream", n] => n.toNat? | _ => none)).getD 0)
          let stream := (List.range n).map (fun i => s!"e{i}")
          let itoks := words impl
          let specs := specsL roots
          let emitted := ((kvGet itoks "emitted") >>= (·.toNat?)).getD 0
          let run : RunObs := { nodes := specs.map (fun s => (s.idx, parseNodeObs itoks s.idx)), emitted := emitted,
                                returned := kvGet itoks "returned" == some "1", seqReturn := ((kvGet itoks "ret") >>= (·.toNat?)).getD 0,
                                progress := kvGet itoks "progress" != some "0" }
          let viols := (judge harnessOracle roots stream run).filter (fun v => v.prop == prop)
          -- prediction (only when nothing in the tree may discard): the denotational flow of what was emitted
          let predictable := !anyDiscard specs
          let accounts := flow harnessOracle (stream.take emitted) roots
          let modelView := joinWith " " (specs.map (fun s =>
            match accounts.find? (fun a => a.idx = s.idx) with
            | some a => viewOf prop s.idx a.received a.setUp a.received.length a.processed a.filtered a.failed 0
            | none => s!"n{s.idx}.missing"))
          let implView := joinWith " " (specs.map (fun s =>
            let ob := obsOf run s.idx
            viewOf prop s.idx ob.recv (ob.setups > 0) ob.received ob.processed ob.filtered ob.failed ob.discarded))
          -- the operational product model (Model/ExecNet) run on the same tree and stream under a canonical global schedule:
          -- its final component states must say what the denotational model says (and what the implementation did)
          let simulated := predictable && emitted * specs.length ≤ 900
          let net := if simulated then FlowNet.simulate harnessOracle roots (stream.take emitted) else none
          let netView := net.map (fun rs => joinWith " " (specs.map (fun s =>
            match rs.find? (fun r => r.idx = s.idx) with
            | some r => viewOf prop s.idx r.recv true r.received r.processed r.filtered r.failed 0
            | none => viewOf prop s.idx [] false 0 0 0 0 0)))
          let netViol : Option String :=
            if !simulated then none
            else match netView with
              | none => some "product-model-did-not-reach-quiescence"
              | some v =>
                if v ≠ modelView then some "operational-and-denotational-models-disagree"
                else if (net.getD []).any (fun r => r.shutdowns ≠ 1) then some "product-model-node-not-shut-down" else none
          let tags :=
            (if predictable then ["predictable"] else ["discarding-tree"]) ++
            (if specs.any (fun s => s.kind = .async && !s.disabled) then ["async"] else []) ++
            (if specs.any (fun s => s.kind = .fanout && !s.disabled) then ["fanout"] else []) ++
            (if specs.any (fun s => s.disabled) then ["disabled-subtree"] else []) ++
            (if specs.any (fun s => s.workers > 1) then ["multi-worker"] else []) ++
            (if accounts.any (fun a => a.failed > 0) then ["failures"] else []) ++
            (if roots.length > 1 then ["multi-root"] else []) ++
            (if emitted < n then ["stopped-early"] else []) ++
            (if (kvGet itoks "progress").isSome then ["gated-discarding-node"] else []) ++
            (if specs.length > 6 then ["big-tree"] else [])
          { model := if predictable then modelView else implView, implView := some implView,
            spec := if impl.startsWith "panic" then some (if impl.contains "DATA RACE" && prop == "C05" then "data-race" else "executor-panicked")
                    else match viols.head?.map (·.clause) with | some c => some c | none => netViol,
            tags := tags ++ (if simulated then ["product-model-run"] else []) }
        | _ => { model := "bad-input" }
      | _, _ => { model := "bad-input" }
    | _ => { model := "bad-input" }
  | _ => { model := "bad-input" }

end Firebolt.ExecTrace
