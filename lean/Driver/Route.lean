import Firebolt.Spec.Route
/-! line-protocol adapter for component `route` (C11).
input: "tree S <subs> <fail> <nroots> N <subs> <fail> <nchildren> ... ; msg <type> <key> <payload> ; resub <index> <subs> ; ..."
subs: comma separated types or '-' -/
namespace Firebolt.Route
open Firebolt

def parseSubs (s : String) : List String := if s == "-" then [] else fields s ","

mutual
def parseN : Nat → List String → Option (RNode × List String)
  | 0, _ => none
  | fuel + 1, "N" :: subs :: fail :: nc :: rest => do
    let nc ← nc.toNat?
    let (cs, r) ← parseL fuel nc rest
    pure (.mk (parseSubs subs) (boolOf fail) cs, r)
  | _, _ => none
def parseL : Nat → Nat → List String → Option (List RNode × List String)
  | _, 0, toks => some ([], toks)
  | 0, _, _ => none
  | fuel + 1, n + 1, toks => do
    let (c, r1) ← parseN fuel toks
    let (cs, r2) ← parseL fuel n r1
    pure (c :: cs, r2)
end

structure RSt where
  srcSubs : List String
  srcFail : Bool
  roots : List RNode

def showInts (l : List Int) : String := "[" ++ joinWith "," (l.map toString) ++ "]"

def parseIntList (s : String) : Option (List Int) :=
  if s.startsWith "[" && s.endsWith "]" then (fields ((s.drop 1).dropEnd 1).toString ",").mapM (·.toInt?) else none

def check (input impl : String) : Verdict :=
  match fields input ";" with
  | hd :: ops =>
    -- "treed": pairs of nodes share an id; routing is by position, so the model does not care
    match (match words hd with | "treed" :: r => "tree" :: r | w => w) with
    | "tree" :: "S" :: ss :: sf :: nr :: rest =>
      match nr.toNat? >>= (fun n => parseL (rest.length + 2) n rest) with
      | some (roots, []) =>
        let st0 : RSt := ⟨parseSubs ss, boolOf sf, roots⟩
        let implOps := (fields impl ";").map words
        -- run the ops on the model, rendering each; judge each msg op by the Spec on the implementation's observation
        let rec go (st : RSt) (ops : List String) (obs : List (List String)) (outs : List String) (sp : Option String) (tags : List String) :
            List String × Option String × List String :=
          match ops with
          | [] => (outs.reverse, sp, tags)
          | op :: rest =>
            let o := obs.headD []
            match words op with
            | ["msg", t, k, p] =>
              let w := deliver t st.srcSubs st.srcFail st.roots
              let out := s!"r={showInts w.recipients} e={showInts w.errors} f={k}:{p}"
              let sp' := match sp with
                | some e => some e
                | none =>
                  match (kvGet o "r") >>= parseIntList, (kvGet o "e") >>= parseIntList with
                  | some r, some e =>
                    match spec t st.srcSubs st.srcFail st.roots r e with
                    | some x => some x
                    | none => if kvGet o "f" = some s!"{k}:{p}" || r.isEmpty then none else some "message-fields-changed"
                  | _, _ => some "unparsable-observation"
              let tg := (if w.recipients.length > 1 then ["multi-recipient"] else if w.recipients.isEmpty then ["no-recipient"] else ["one-recipient"]) ++
                        (if w.errors.isEmpty then [] else ["recipient-error"]) ++ (if w.errors.length > 0 && w.recipients.length > w.errors.length then ["error-and-success"] else [])
              go st rest (obs.drop 1) (out :: outs) sp' (tags ++ tg)
            | ["resub", i, ss] =>
              match i.toInt? with
              | some i =>
                let st' := if i = -1 then { st with srcSubs := parseSubs ss } else { st with roots := (resubL i (parseSubs ss) 0 st.roots).1 }
                go st' rest (obs.drop 1) ("." :: outs) sp (tags ++ ["resubscribe"])
              | none => (["bad-input"], sp, tags)
            | ["restart"] =>
              -- the source instance is replaced (prepareSource): the fresh instance subscribes as configured
              go { st with srcSubs := st0.srcSubs } rest (obs.drop 1) ("." :: outs) sp (tags ++ ["source-restart"])
            | _ => (["bad-input"], sp, tags)
        let (outs, sp, tags) := go st0 ops implOps [] none []
        { model := joinWith " ; " outs, spec := sp, tags := tags.eraseDups }
      | _ => { model := "bad-input" }
    | _ => { model := "bad-input" }
  | _ => { model := "bad-input" }

end Firebolt.Route
