import Firebolt.Model.Supervisor
/-! line-protocol adapter for component `supervise` (C18).
input: "sup <nevents> fails=<a,b|-> [delay=i:ms] [cancelwrap=1]"
observation: "log=<calls> outch=<distinct channels> params=<distinct param objects> ids=<distinct ids> recv=<events> returned=1" -/
namespace Firebolt.Supervisor
open Firebolt

def showCall : Call → List String
  | .factory i => [s!"factory{i}"]
  | .init i => [s!"init{i}"]
  | .setup i => [s!"setup{i}", s!"setupdone{i}"]
  | .start i => [s!"start{i}"]
  | .returned i .failed => [s!"fail{i}"]
  | .returned i .finished => [s!"end{i}"]
  | .pause => []
  | .closeCh => []

def check (input impl : String) : Verdict :=
  match words input with
  | "sup" :: n :: fails :: _ =>
    match n.toNat? with
    | some n =>
      let fs := (fails.drop 6).toString
      let k := if fs == "-" then 0 else (fields fs ",").length
      let rets := List.replicate k Ret.failed ++ [Ret.finished]
      let log := joinWith "," ((lifecycle rets).flatMap showCall)
      let recv := if n = 0 then "-" else joinWith "," ((List.range n).map (fun i => s!"e{i}"))
      let model := s!"log={log} outch=1 params=1 ids=1 recv={recv} returned=1"
      let toks := words impl
      -- scenario ending in a failed Setup of incarnation `sf` (child process): the lifecycle up to that Setup, nothing after
      match (words input).findSome? (fun w => if w.startsWith "setupfail=" then (w.drop 10).toString.toNat? else none) with
      | some sf =>
        let full := (lifecycle rets).flatMap showCall
        let cut := (full.takeWhile (· != s!"setup{sf}")) ++ [s!"setup{sf}"]
        let ilog := fields ((kvGet toks "log").getD "") ","
        let sp : Option String :=
          if ilog.any (· == s!"start{sf}") then some "started-before-setup-succeeded"
          else if ilog.any (· == s!"factory{sf+1}") then some "not-one-fresh-instance-per-incarnation"
          else none
        { model := s!"log={joinWith "," cut} exit=1", spec := sp, tags := [s!"failures{k}", "setup-failure"] }
      | none =>
      -- Spec, from the statement
      let ilog := fields ((kvGet toks "log").getD "") ","
      let pos (x : String) : Option Nat := ilog.findIdx? (· == x)
      let sp : Option String :=
        if kvGet toks "returned" ≠ some "1" then some "nil-return-did-not-end-the-run"
        else if (List.range (k + 1)).any (fun i => (ilog.filter (· == s!"factory{i+1}")).length ≠ 1) then some "not-one-fresh-instance-per-incarnation"
        else if ilog.any (fun x => x == s!"factory{k+2}") then some "restarted-after-nil-return"
        else if (List.range (k + 1)).any (fun i => (ilog.filter (· == s!"start{i+1}")).length ≠ 1) then some "instance-not-started-exactly-once"
        else if (List.range (k + 1)).any (fun i => match pos s!"setupdone{i+1}", pos s!"start{i+1}" with | some a, some b => a ≥ b | _, _ => true) then some "started-before-setup-succeeded"
        else if (List.range k).any (fun i => match pos s!"fail{i+1}", pos s!"start{i+2}" with | some a, some b => a ≥ b | _, _ => true) then some "restarted-before-previous-start-returned"
        else if kvGet toks "outch" ≠ some "1" then some "different-output-channel"
        else if kvGet toks "params" ≠ some "1" then some "different-parameters"
        else if kvGet toks "ids" ≠ some "1" then some "different-id"
        else if kvGet toks "recv" ≠ some recv then some "events-of-incarnations-not-one-stream"
        else if ((kvGet toks "hw") >>= (·.toNat?)).getD 0 > 1 then some "more-concurrent-calls-than-workers"
        else if (fields ((kvGet toks "pauses").getD "-") ",").any (fun x => match x.toNat? with | some ms => ms < 1000 | none => false) then some "restarted-without-a-pause"
        else none
      { model := model, implView := some (joinWith " " ((words impl).filter (fun w => !w.startsWith "pauses=" && !w.startsWith "hw="))), spec := sp, tags := [s!"failures{k}"] ++ (if input.contains "runms" then ["long-running-incarnation"] else []) ++ (if input.contains "delay" then ["slow-setup"] else []) ++ (if input.contains "cancelwrap" then ["wrapped-cancel"] else []) }
    | none => { model := "bad-input" }
  | _ => { model := "bad-input" }

end Firebolt.Supervisor
