import Firebolt.Spec.Params
/-! line-protocol adapter for component `params` (C20) -/
namespace Firebolt.Params
open Firebolt

def unTilde (s : String) : String := if s == "~" then "" else s
def tilde (s : String) : String := if s == "" then "~" else s

def parseKV (s : String) : Option (String × String) :=
  match s.splitOn "=" with
  | [k, v] => some (k, v)
  | _ => none

def parseKVs (l : List String) : Option PMap := l.mapM parseKV

def sortKV (m : List (String × String)) : List (String × String) :=
  m.foldr (fun kv acc =>
    let rec ins : List (String × String) → List (String × String)
      | [] => [kv]
      | y :: ys => if kv.1 ≤ y.1 then kv :: y :: ys else y :: ins ys
    ins acc) []

def showKVs (m : List (String × String)) : String := "[" ++ joinWith "," ((sortKV m).map (fun kv => kv.1 ++ "=" ++ kv.2)) ++ "]"

def parseKVList (s : String) : Option (List (String × String)) :=
  if s.startsWith "[" && s.endsWith "]" then (fields ((s.drop 1).dropEnd 1).toString ",").mapM parseKV else none

def parseConf (toks : List String) (pre : String) : Option ClientConf := do
  let t ← (kvGet toks (pre ++ ".top")) >>= parseKVList
  let s ← kvGet toks (pre ++ ".sub")
  let sub ← if s == "none" then some none else (parseKVList s).map some
  pure ⟨t, sub⟩

def showConf (pre : String) (c : ClientConf) : String :=
  s!"{pre}.top={showKVs c.top} {pre}.sub={match c.sub with | none => "none" | some s => showKVs s}"

def showGetInt : GetRes Int → String
  | .ok v => s!"ok {v}"
  | .err => "err"

def parseBits (s : String) : Option UInt64 := s.toNat?.map (·.toUInt64)

def check (input impl : String) : Verdict :=
  let toks := words input
  let itoks := words impl
  match toks with
  | "overlay" :: _client :: kvs | "setup" :: _client :: kvs =>   -- setup: the same question asked after a real Setup ran on the params
    match parseKVs kvs with
    | none => { model := "bad-input" }
    | some params =>
      if impl == "err" then { model := "ok", spec := some "overlay-error" } else
      match parseConf itoks "base", parseConf itoks "min", parseConf itoks "res" with
      | some base, some minB, some res =>
        let m := overlay base params
        let nsub := (strip prefixT (strip prefixL params)).length
        let ntop := (strip prefixL params).length - nsub
        { model := s!"{showConf "base" base} {showConf "min" minB} {showConf "res" m}",
          spec := specOverlay params base minB res,
          tags := ["overlay"] ++ (if ntop > 0 then ["top-override"] else []) ++ (if nsub > 0 then ["sub-override"] else [])
                  ++ (if (strip prefixL params).any (fun kv => base.top.any (fun b => b.1 == kv.1)) then ["overrides-default"] else []) }
      | _, _, _ => { model := "unparsable-observation", spec := some "unparsable-observation" }
  | "check" :: kvs =>
    match parseKVs kvs with
    | none => { model := "bad-input" }
    | some params0 =>
      let params := params0.map (fun kv => (kv.1, unTilde kv.2))
      let m := checkConfig params
      -- the lag the source will run with: the configured value, or the int64 default when the key is absent or empty
      let given := ((params.find? (fun kv => kv.1 == "maxpartitionlag")).map (·.2)).getD ""
      let ml := if given == "" then "9223372036854775807" else given
      let accepted := impl.startsWith "ok"
      let sp := if accepted != specCheck params then some (if accepted then "invalid-config-accepted" else "valid-config-rejected")
                else if accepted && impl != s!"ok ml={ml}" then some "configured-maxpartitionlag-not-in-effect" else none
      { model := if m then s!"ok ml={ml}" else "err", spec := sp, tags := [if m then "check-ok" else "check-err"] }
  | ["int", req, present, value, dflt, mn, mx] =>
    match dflt.toInt?, mn.toInt?, mx.toInt? with
    | some d, some mn, some mx =>
      let v := if boolOf present then some (unTilde value) else none
      let required := boolOf req
      let (r, stored) := if required then (intRequired v mn mx, v) else
        let x := intConfig v d mn mx; (x.1, some x.2)
      let model := s!"{showGetInt r} set={match stored with | none => "~absent" | some s => tilde s}"
      let want := specInt required v d mn mx
      let got := match itoks with
        | "ok" :: x :: _ => (x.toInt?.map GetRes.ok).getD .err
        | _ => .err
      { model := model, spec := if got == want && (itoks.head? == some "ok" || itoks.head? == some "err") then none else some "int-getter",
        tags := [if required then "int-required" else "int", match r with | .ok _ => "ok" | .err => "err"] ++ (if v.isNone then ["absent"] else []) }
    | _, _, _ => { model := "bad-input" }
  | ["str", req, present, value, dflt] =>
    let v := if boolOf present then some (unTilde value) else none
    let required := boolOf req
    let r := if required then strRequired v else (strConfig v (unTilde dflt)).1
    let sh : GetRes String → String := fun r => match r with | .ok s => s!"ok {tilde s}" | .err => "err"
    let want := specStr required v (unTilde dflt)
    { model := sh r, spec := if impl == sh want then none else some "string-getter", tags := [if required then "str-required" else "str"] }
  | ["float", req, present, _value, pv, dflt, mn, mx] =>
    match parseBits dflt, parseBits mn, parseBits mx with
    | some d, some mn, some mx =>
      let pvo := if pv == "e" then none else parseBits pv
      let want := specFloat (boolOf req) (boolOf present) pvo d mn mx
      let sh : GetRes UInt64 → String := fun r => match r with | .ok b => s!"ok {b.toNat}" | .err => "err"
      let nan (x : UInt64) : Bool := Float.isNaN (Float.ofBits x)
      let scope := !(nan d || nan mn || nan mx || (pvo.map nan).getD false)
      -- the model of today's Float64Config needs Go's formatting of the default; with an exact formatter it equals the Spec
      { model := sh want, spec := if !scope || impl == sh want then none else some (if boolOf present then "float-getter" else "float-getter-default"),
        inScope := scope, tags := [if boolOf req then "float-required" else "float", if boolOf present then "present" else "absent"] }
    | _, _, _ => { model := "bad-input" }
  | ["atoi", s] =>
    let r := atoi (unTilde s)
    { model := match r with | some v => s!"ok {v}" | none => "err", tags := [if r.isSome then "atoi-ok" else "atoi-err"] }
  | ["bool", s] =>
    let r := parseBool (unTilde s)
    { model := match r with | some v => s!"ok {v}" | none => "err", tags := [if r.isSome then "bool-ok" else "bool-err"] }
  | _ => { model := "bad-input" }

end Firebolt.Params
