import Driver.Params
/-! line-protocol adapter for component `setupparams` (C18, "each replacement is set up with the same parameters"):
the executor hands its own `Source.Params` map to `Setup` of every incarnation, so a `Setup` that changes or drops a
configured entry changes what the next incarnation is set up with.
input: "sp k=v k=v ..." — a real `KafkaConsumer.Setup` runs on the map; observation: the map afterwards, sorted.
The code writes two defaults into the map (`maxpartitionlag`, `parallelrecoveryenabled`); nothing else may change. -/
namespace Firebolt.SetupParams
open Firebolt Firebolt.Params

def withDefaults (m : PMap) : PMap :=
  let m1 := if lookup m "maxpartitionlag" == "" then (m.filter (·.1 != "maxpartitionlag")) ++ [("maxpartitionlag", "9223372036854775807")] else m
  if lookup m1 "parallelrecoveryenabled" == "" then (m1.filter (·.1 != "parallelrecoveryenabled")) ++ [("parallelrecoveryenabled", "false")] else m1

def check (input impl : String) : Verdict :=
  match words input with
  | "sp" :: kvs =>
    match parseKVs kvs with
    | none => { model := "bad-input" }
    | some params =>
      let model := "ok " ++ showKVs (withDefaults params)
      let sp : Option String :=
        if !impl.startsWith "ok " then some "setup-failed-on-valid-parameters"
        else match parseKVList ((impl.drop 3).toString) with
          | none => some "unparsable-observation"
          | some after =>
            if params.any (fun kv => kv.2 != "" && !(after.any (fun a => a.1 == kv.1 && a.2 == kv.2))) then
              some "source-parameters-changed-by-setup"
            else none
      { model := model, spec := sp,
        tags := ["setup"] ++ (if params.any (fun kv => kv.1.startsWith "librdkafka.") then ["client-overrides"] else []) ++
                (if lookup params "parallelrecoveryenabled" == "true" then ["with-recovery"] else []) }
  | _ => { model := "bad-input" }

end Firebolt.SetupParams
