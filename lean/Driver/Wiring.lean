import Driver.Params
/-! line-protocol adapter for component `wiring` (C20: parameters reach `Setup` verbatim through `executor.New(WithConfig …)`).
input: "wire S k=v ... N k=v ..."; observation: "S=[sorted k=v] N=[sorted k=v]" as the source's and the node's `Setup` saw them. -/
namespace Firebolt.Wiring
open Firebolt Firebolt.Params

def splitAtN : List String → List String × List String
  | [] => ([], [])
  | "N" :: r => ([], r)
  | x :: r => let (a, b) := splitAtN r; (x :: a, b)

def check (input impl : String) : Verdict :=
  match words input with
  | "wire" :: "S" :: rest =>
    let (s, n) := splitAtN rest
    match parseKVs s, parseKVs n with
    | some sm, some nm =>
      let model := s!"S={showKVs sm} N={showKVs nm}"
      { model := model, spec := if impl == model then none else some "parameter-changed-on-the-way-to-setup",
        tags := ["wiring"] ++ (if rest.any (fun t => t.contains '$') then ["dollar-values"] else []) }
    | _, _ => { model := "bad-input" }
  | _ => { model := "bad-input" }

end Firebolt.Wiring
