#!/bin/sh
# run every check of MANIFEST.json once (tier from $1, default quick); prints one line per check
cd "$(dirname "$0")/.."
tier=${1:-quick}
for p in $(python3 -c "import json;print(' '.join(c['property_id'] for c in json.load(open('MANIFEST.json'))['checks']))"); do
  python3 run/verif.py check $p --tier $tier 2>&1 | grep -v rdkafka | tail -3 | cut -c1-220
done
