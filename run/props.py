"""Per-property configuration of the checks (components, case budgets, trusted base notes)."""

TRUSTED_BASE = [
    "Lean 4.33.0 kernel (lake build); thorough tier re-checks the property module with leanchecker",
    "axioms allowed: propext, Classical.choice, Quot.sound (audited with #print axioms on every theorem of the property file); "
    "no sorry/admit/axiom/native_decide/bv_decide (grep on every run)",
    "hand-written Lean model + Spec predicate of the component (lean/Firebolt/Model, lean/Firebolt/Spec)",
    "correspondence check: Go harness (harness/, built against /repo's working tree with -tags verif) + fbdriver diff",
    "extractor (go/ast, stdlib only): regenerates the skeleton / full-statement form of the functions the models were transcribed from and of the functions "
    "their assumptions rest on; kernel-checked equality with the reviewed copies (Expected/*.lean)",
    "orchestrator run/verif.py",
]

KAFKA_CLIENT = ("confluent-kafka-go / librdkafka replaced by a scripted client behind firebolt's kafka.MessageConsumer "
                "interface (modelled, not verified)")
JSON_CODEC = "encoding/json round trip of recovery snapshots / wire messages (modelled as identity, exercised by the harness)"

RECOVERY_TRUST = [KAFKA_CLIENT + "; cursor contract: after Assign(p@x) the client delivers x, x+1, ... in order, interleaved across partitions, "
                  "stale/out-of-order records only via explicit 'msg' ops", JSON_CODEC,
                  "golang.org/x/time/rate limiter replaced by an unlimited one in this component (rate is C19)"]

RECEIVER_TRUST = ["encoding/json + base64 wire codec: outside the model (a decodable record is its fields); the harness decodes every produced record "
                  "with a mirror struct and compares the fields", KAFKA_CLIENT, "records are written by the REAL KafkaMessageSender over a scripted producer"]

EXEC_TRUST = ["Go runtime semantics assumed by the executor models: buffered channels are FIFO, a receive on a closed channel yields !ok only after the buffer is drained, "
              "a send on a closed channel panics, select with default never blocks, sync.WaitGroup, sync.Once, goroutine creation; prometheus counters are atomic",
              "harness-owned source and nodes (harness/execnodes.go) observe the real executor; their outcome oracle (FNV-1a of seed, node index, payload) is re-implemented in "
              "Lean (Model/Flow.lean harnessOracle) and compared on every event",
              "the operational product model (Model/ExecNet) is also RUN on every flow case without discarding nodes (Driver/FlowNet: canonical global schedule to quiescence) and must agree "
              "with the denotational model and the implementation",
              "extractor (go/ast): the regenerated skeleton of Execute, runNode, startWorkers, setupNodes, ProcessEvent, handleResult, deliverToChild, handleFailure, "
              "invokeProcessorAsync, InitNodeContextHierarchy must equal the expected skeleton the models were transcribed from (kernel rfl)"]

PROPS = {
    "C10": dict(
        components=[("receiver", 2000, 100000)],
        parallel=8,
        trusted=RECEIVER_TRUST,
        assumptions=["end-of-partition signals name partitions 0..n-1 of the topic; types without '-' (C12's restriction); "
                     "a JSON value of the right shape always decodes (e.g. {} decodes to the empty message)"],
    ),
    "C12": dict(
        components=[("receiver", 2000, 100000)],
        parallel=8,
        seed_offset=104729,
        trusted=RECEIVER_TRUST,
        assumptions=["types without '-' (stated restriction); collision witness for types with '-' is a theorem"],
    ),
    "C11": dict(
        components=[("route", 1500, 50000)],
        shrink=False,
        trusted=["a real Executor is built with executor.New(WithConfig) from harness-owned source and node types; Receive calls are recorded by the nodes",
                 "ContextAware.Subscribe/AcceptsMessage are exercised through the real embedded type"],
        assumptions=["error handlers are not part of the processing tree for message routing (the walk does not visit them); disabled nodes are not in the tree"],
    ),
    "C14": dict(
        components=[("essink", 90, 2500)],
        parallel=12,
        shrink=False,
        trusted=["olivere/elastic BulkService replaced by a scripted one behind the node's bulkService interface (item order = request order; Errors = some item failed; "
                 "a non-2xx item always carries an error object)", "wall-clock behaviour (idle timer, 5 s back-off, per-request deadline) is measured on the real code with coarse margins, not modelled"],
        assumptions=["per-document verdicts are a deterministic function of (document, its attempt), so final answers do not depend on how the timer groups documents into batches",
                     "whole-request failures cost a hard-coded 5 s back-off each: one directed scenario in the thorough tier only; the deadline scenario (F7) is in both tiers"],
    ),
    "C15": dict(
        components=[("producer", 2000, 50000)],
        trusted=["encoding/json: the harness parses every produced value with encoding/json and compares the tree shape; whether a payload is serialisable is an "
                 "input of the model", "scripted MessageProducer standing in for librdkafka's produce channel"],
        assumptions=["error reports carry a non-nil error (the framework never builds one without); unserialisable ErrorInfo is outside the statement"],
    ),
    "C13": dict(
        components=[("config", 2000, 60000)],
        shrink=False,
        trusted=["gopkg.in/yaml.v2 parsing and os.ExpandEnv are exercised (files are rendered and read with config.Read), not modelled",
                 "registry contents are a parameter of the model; the harness registers 12 node types t_<consumes>_<produces> and 3 sources"],
        assumptions=["structurally complete files (source and nodes present); error handlers are not part of the processing tree for the id clause "
                     "(the code does not check their ids); `children: []` is never written for handlers",
                     "a sink with a child makes config.Read panic instead of returning an error: counted as 'not accepted' (model outcome crash)"],
    ),
    "C07": dict(
        components=[("recovery", 1500, 50000)],
        trusted=RECOVERY_TRUST,
        assumptions=["offsets and ranges non-negative and well-formed; parallelrecoverymaxrate >= 1 (0 divides by zero in the code: recorded observation)",
                     "a request replaced or widened under a running reader (foreign snapshot / second request changing 'to') is not judged by the Spec "
                     "until the next refresh; model-vs-code comparison still applies"],
    ),
    "C09": dict(
        components=[("recovery", 1500, 50000), ("receiver", 300, 4000)],
        seed_offset=7919,
        trusted=RECOVERY_TRUST + ["a successor's tracker is rebuilt in the harness by replaying the recorded message log into a fresh instance; "
                                  "the model keeps the tracker across 'crash' (justified by C08.snapshot_replication)"],
        assumptions=["same as C07"],
    ),
    "C19": dict(
        components=[("ratelimit", 0, 25), ("recovery", 400, 20000)],
        seed_offset=15485863,
        shrink=False,
        trusted=["golang.org/x/time/rate: the token-bucket contract (a Wait returns no earlier than the bucket can grant a token) is assumed; the theorems derive the rate bound from it",
                 "wall-clock measurement of the real code with the really-constructed limiter (NewRecoveryConsumer, then the Kafka client is swapped by a hook): "
                 "elapsed >= 0.9 * (n - 100) / rate, a lower bound on time that machine load can only make easier to meet",
                 "extractor (go/ast) for the regenerated facts: limiter construction and every mention of it, shape of recoverSingleEvent and of the main processEvent"],
        assumptions=["rates 50..5000/s, 1..4 partitions recovering at once; events per second are measured, not proved (runtime part of the property)"],
    ),
    "C20": dict(
        components=[("params", 5000, 200000), ("wiring", 150, 3000)],
        trusted=["confluent ConfigMap.SetKey ({topic}. sub-map rule) modelled in classify/applyParam", "strconv.Atoi/ParseBool re-implemented in the "
                 "model and compared with Go on boundary strings in every run", "strconv.ParseFloat / FormatFloat are parameters of the model "
                 "(round-trip hypothesis); the harness supplies Go's ParseFloat of each configured string"],
        assumptions=["parameter keys/values drawn from an alphabet without the harness separators (space, tab, '=', ',')",
                     "NaN bounds/defaults are outside the quantifier (compared model-vs-code only)"],
    ),
    "C08": dict(
        components=[("tracker", 2000, 100000), ("receiver", 300, 4000)],
        parallel=8,
        trusted=[JSON_CODEC, "FBContext.SendMessage replaced by a recording context"],
        assumptions=["ranges well-formed (from <= to) and message keys parsable, as every caller in firebolt produces them; "
                     "ill-formed ranges and unparsable keys are compared model-vs-code only",
                     "replication is claimed for the partitions whose last write was a broadcast of the sender (a partition last written by a "
                     "received snapshot holds that snapshot, not the sender's)"],
    ),
    "C01": dict(
        components=[("flow-C01", 250, 6000)],
        parallel=8,
        shrink=False,
        trusted=EXEC_TRUST,
        assumptions=["async nodes answer every event before their Shutdown returns (H-async: what the framework documents)",
                     "the harness observes schedules the Go scheduler happens to produce (GOMAXPROCS 1/2/4/16, random latencies, async completions inline, from other goroutines, or "
                     "flushed inside Shutdown); the quantifier over ALL schedules is carried by the Lean component model, tied to the source by the skeleton equalities"],
    ),
    "C02": dict(
        components=[("flow-C02", 250, 6000)],
        race=True,
        race_components=["flow-C02"],
        race_quick=40,
        parallel=8,
        shrink=False,
        trusted=EXEC_TRUST,
        assumptions=["async nodes answer every event before their Shutdown returns (H-async: what the framework documents)",
                     "the harness observes schedules the Go scheduler happens to produce (GOMAXPROCS 1/2/4/16, random latencies, async completions inline, from other goroutines, or "
                     "flushed inside Shutdown); the quantifier over ALL schedules is carried by the Lean component model, tied to the source by the skeleton equalities"],
    ),
    "C03": dict(
        components=[("flow-C03", 250, 6000)],
        parallel=8,
        shrink=False,
        trusted=EXEC_TRUST,
        assumptions=["async nodes answer every event before their Shutdown returns (H-async: what the framework documents)",
                     "the harness observes schedules the Go scheduler happens to produce (GOMAXPROCS 1/2/4/16, random latencies, async completions inline, from other goroutines, or "
                     "flushed inside Shutdown); the quantifier over ALL schedules is carried by the Lean component model, tied to the source by the skeleton equalities"],
    ),
    "C04": dict(
        components=[("flow-C04", 250, 6000)],
        parallel=8,
        shrink=False,
        trusted=EXEC_TRUST,
        assumptions=["async nodes answer every event before their Shutdown returns (H-async: what the framework documents)",
                     "the harness observes schedules the Go scheduler happens to produce (GOMAXPROCS 1/2/4/16, random latencies, async completions inline, from other goroutines, or "
                     "flushed inside Shutdown); the quantifier over ALL schedules is carried by the Lean component model, tied to the source by the skeleton equalities"],
    ),
    "C05": dict(
        components=[("flow-C05", 250, 6000), ("supervise-C05", 1, 2)],
        race=True,
        race_components=["flow-C05"],
        parallel=8,
        shrink=False,
        trusted=EXEC_TRUST,
        assumptions=["async nodes answer every event before their Shutdown returns (H-async: what the framework documents)",
                     "the harness observes schedules the Go scheduler happens to produce (GOMAXPROCS 1/2/4/16, random latencies, async completions inline, from other goroutines, or "
                     "flushed inside Shutdown); the quantifier over ALL schedules is carried by the Lean component model, tied to the source by the skeleton equalities"],
    ),
    "C16": dict(
        components=[("flow-C16", 250, 6000)],
        parallel=8,
        shrink=False,
        trusted=EXEC_TRUST,
        assumptions=["async nodes answer every event before their Shutdown returns (H-async: what the framework documents)",
                     "the harness observes schedules the Go scheduler happens to produce (GOMAXPROCS 1/2/4/16, random latencies, async completions inline, from other goroutines, or "
                     "flushed inside Shutdown); the quantifier over ALL schedules is carried by the Lean component model, tied to the source by the skeleton equalities"],
    ),
    "C17": dict(
        components=[("timeout", 0, 20)],
        parallel=12,
        shrink=False,
        case_timeout=200,
        trusted=EXEC_TRUST + ["wall-clock measurement with coarse margins: return within timeout + 2 s after the source stopped when a node stalls; before the timeout when all nodes finish"],
        assumptions=["the seconds are a runtime quantity: the Lean theorems are about the main goroutine's logic (the timer alone decides once it waits); the bound itself is measured"],
    ),
    "C18": dict(
        components=[("supervise", 0, 12), ("setupparams", 40, 400)],
        parallel=12,
        shrink=False,
        case_timeout=200,
        trusted=EXEC_TRUST + ["the pause before a restart is hard-coded (10 s): every restart in a scenario costs 10 s of wall clock; scenarios run in parallel processes"],
        assumptions=["a failing Setup ends the process with os.Exit(1): exercised only manually (it would kill the harness); the model treats `setup i` as a successful Setup",
                     "events of all incarnations flow through the one shared output channel, so C01-C03 apply to the concatenated stream (they are proved for arbitrary streams)"],
    ),
    "C06": dict(
        components=[("offsets", 3000, 300000)],
        parallel=4,
        trusted=[KAFKA_CLIENT, "Go int64 arithmetic modelled by wrap64 on Int"],
        assumptions=["committed offsets and watermarks within 0..2^62, distinct partitions in one assignment (the statement's quantifier); "
                     "other negative offset sentinels are compared model-vs-code only"],
    ),
}
