"""Per-property configuration of the checks (components, case budgets, trusted base notes)."""

TRUSTED_BASE = [
    "Lean 4.33.0 kernel (lake build); thorough tier re-checks the property module with leanchecker",
    "axioms allowed: propext, Classical.choice, Quot.sound (audited with #print axioms on every theorem of the property file); "
    "no sorry/admit/axiom/native_decide/bv_decide (grep on every run)",
    "hand-written Lean model + Spec predicate of the component (lean/Firebolt/Model, lean/Firebolt/Spec)",
    "correspondence check: Go harness (harness/, built against /repo's working tree with -tags verif) + fbdriver diff",
    "orchestrator run/verif.py",
]

KAFKA_CLIENT = ("confluent-kafka-go / librdkafka replaced by a scripted client behind firebolt's kafka.MessageConsumer "
                "interface (modelled, not verified)")
JSON_CODEC = "encoding/json round trip of recovery snapshots / wire messages (modelled as identity, exercised by the harness)"

PROPS = {
    "C06": dict(
        components=[("offsets", 3000, 300000)],
        trusted=[KAFKA_CLIENT, "Go int64 arithmetic modelled by wrap64 on Int"],
        assumptions=["committed offsets and watermarks within 0..2^62, distinct partitions in one assignment (the statement's quantifier); "
                     "other negative offset sentinels are compared model-vs-code only"],
    ),
}
