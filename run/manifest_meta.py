"""Human-written level texts for MANIFEST.json."""
META = {
    "C06": dict(
        text="Proof: the lag-cap arithmetic, trimming and error-abort rules of assignPartitions are proved in Lean for all int64-range inputs "
             "of the statement (no wrap-around, exact start offset, exact request range, abort on any query error). The Lean model is tied to "
             "the Go code by a differential check on boundary-biased generated assignments over a scripted Kafka client.",
        note="Trusted: Lean kernel, model transcription, scripted Kafka client standing in for librdkafka, harness/driver. "
             "Theorems are about the model; the code is covered through the correspondence check and the Spec oracle.",
    ),
}
NOT_APPLICABLE = {}
