"""Human-written level texts for MANIFEST.json."""
META = {
    "C20": dict(
        text="Proof: overlay laws for every parameter map (each librdkafka.-prefixed parameter reaches the client configuration verbatim under the "
             "stripped key and wins over the default; unprefixed parameters never change it: overlay_top, overlay_sub, overlay_ignores_unprefixed, "
             "overlay_filter_prefixed), checkConfig accepts exactly the listed configurations (checkConfig_iff), typed getters return value-or-default "
             "exactly when it parses and lies within bounds (int/string/float, the float law for every parser/formatter pair that round-trips). "
             "Tied to the four real buildConfigMap functions, checkConfig and the getters by differential runs.",
        note="Trusted: Lean kernel, model transcription incl. re-implemented Atoi/ParseBool (differentially compared with Go), Go's float parsing/formatting "
             "as parameters. atoi∘itoa is kernel-evaluated on boundary values, not proved for all n.",
    ),
    "C08": dict(
        text="Proof: for every operation sequence the Lean model of the recovery tracker satisfies: merge coverage = old ∪ new (add_covered), "
             "update touches only the head request when its 'to' matches, completion removes exactly the named requests, get returns the oldest, "
             "and state-based replication: a replica that saw all broadcasts or ANY log compaction of them (Compacts relation) holds the sender's "
             "state (snapshot_replication, compaction_invisible). Tied to the Go tracker by differential runs with two real replica trackers fed the real JSON payloads.",
        note="Trusted: Lean kernel, model transcription, JSON codec treated as identity (exercised, not proved), recording FBContext. "
             "Replication theorems cover local-operation histories; interleaved receives are covered by correspondence + Spec oracle.",
    ),
    "C06": dict(
        text="Proof: the lag-cap arithmetic, trimming and error-abort rules of assignPartitions are proved in Lean for all int64-range inputs "
             "of the statement (no wrap-around, exact start offset, exact request range, abort on any query error). The Lean model is tied to "
             "the Go code by a differential check on boundary-biased generated assignments over a scripted Kafka client.",
        note="Trusted: Lean kernel, model transcription, scripted Kafka client standing in for librdkafka, harness/driver. "
             "Theorems are about the model; the code is covered through the correspondence check and the Spec oracle.",
    ),
}
NOT_APPLICABLE = {}
