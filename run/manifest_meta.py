"""Human-written level texts for MANIFEST.json."""
META = {
    "C17": dict(
        text="Proof of the logic + measured runtime (partial): in the main-goroutine model, once the roots are closed the timer action is always enabled and reaches `done` in two own steps "
             "whatever the environment does (timer_independent, env_keeps_waiting, reaches_wait); with all workers exited it returns without the timer (prompt_when_all_done). The clause "
             "'including stalls that have already filled every buffer back to the source' is FALSE on the unchanged code: a main goroutine blocked on a full root buffer can take no step and "
             "never reaches the bounded wait (blocked_main_never_returns, blocked_main_stays_blocked) — known finding F6, replayed on the real code. Seconds are measured by the harness with "
             "stalled root / inner / leaf / handler nodes, timeouts 1, 5, 6 s.",
        note="Partial: wall-clock bounds cannot be exhibited in Lean. Trusted: Lean kernel, model transcription, wall-clock margins, extractor (waitTimeout, Execute, stopWorkers, runNode).",
        technique="Lean 4 theorems about the main-goroutine model + regenerated skeleton equalities + timing harness on the real executor",
    ),
    "C18": dict(
        text="Proof: for every number k of consecutive failures the supervision model yields exactly k+1 instances, each created, initialised, set up and started exactly once and in that "
             "order, instance j+1 only after instance j returned (supervise_failures_then_finish, instances, order_spelled_out); the source channel is closed exactly once, as the last call, "
             "only after a nil return, and never while the source keeps failing (close_only_after_finish, failures_never_close). Source shape pinned by skeleton equalities for superviseSource, "
             "prepareSource, Execute. Real runs: scripted sources failing after 0..n events, errors that wrap context.Canceled, a replacement whose Setup outlasts the pause.",
        note="Trusted: Lean kernel, model transcription, harness source, extractor. Each restart costs the hard-coded 10 s pause. A failing Setup (os.Exit) is not exercised by the check.",
    ),
    "C01": dict(
        text="Proof: for every tree, outcome oracle and stream the denotational flow model offers each enabled child exactly the results of the events its parent passed (passed_mem, "
             "passed_count: multiplicities add up, nothing lost/duplicated/invented), every root the whole stream (roots_offered), and prunes disabled subtrees entirely (disabled_pruned, "
             "silentN_all). The model's shape is pinned to the source by regenerated skeleton equalities (skeleton_*). The per-edge conservation under EVERY interleaving of workers and async "
             "completions is an invariant of the node component model (Properties/ExecLedger), and the PRODUCT of the components over their shared channels (Model/ExecNet: one component per "
             "node of an arbitrary tree, any global schedule) satisfies every component invariant at every node plus channel agreement (reachable_ginv); at global quiescence every node of a "
             "tree without discarding nodes received exactly the denotational prediction (tree_flow_any_global_schedule), and with any discard settings receipts + counted drops = offers on "
             "every edge (tree_edge_any_global_schedule). Real executor runs are compared with the flow model and judged by the trace monitor.",
        note="Trusted: Lean kernel, model transcription, Go channel/WaitGroup/Once semantics, harness nodes, extractor. The Go scheduler is sampled, not enumerated, on the real code.",
    ),
    "C02": dict(
        text="Proof: the handler is offered exactly one report per failed event carrying that event, none for passed/filtered events (reports_exact via injectivity of the report wrapper, "
             "report_only_for_failures), reports go to the node's own handler only (handler_gets_reports), a node without handler only counts (no_handler_only_counts); handler edge "
             "conservation under every interleaving in the component model and, in the product model of the whole tree, for every global schedule (tree_handler_any_global_schedule). Real runs: handlers (sync and async) check pointer identity of the original event and of the returned error.",
        note="Trusted as C01. Found and repaired: F3 (async error handlers panicked).",
    ),
    "C03": dict(
        text="Proof: close-cascade invariants of the node component model under every interleaving of its workers, async completions and downstream consumers: WaitGroup count = live workers, "
             "a single Once holder, Shutdown only after every processing call returned, children and handler closed only after Shutdown returned, each exactly once, never a send on a closed channel "
             "(Properties/ExecCascade); in the product model of the whole tree (Model/ExecNet) under every global schedule: a child's or handler's Shutdown begins only after its parent's Shutdown has "
             "returned (tree_cascade_any_global_schedule), no closed channel is ever sent on or closed twice anywhere (tree_no_panic_any_global_schedule), nothing is left in any channel at quiescence "
             "(tree_drained_any_global_schedule), and the drain cannot get stuck: once the source has finished either every node is terminal or some worker can take a step "
             "(tree_drain_cannot_get_stuck), and it terminates under every scheduler: a ranking function strictly decreases with every step of a tree node, so any continuation after the source's "
             "end is bounded in length and ends with every node terminal (tree_drain_terminates). Source shape pinned by skeleton equalities for runNode, startWorkers, Execute, waitTimeout, superviseSource, Shutdown. Real runs are judged by sequence stamps.",
        note="Trusted as C01, plus H-async. Progress and termination of the drain are proved for the model; that node code returns from the calls the model's steps stand for is an assumption (a node that never returns is C17's subject) and Execute returning is also observed on real runs (watchdog).",
    ),
    "C04": dict(
        text="Proof: ledger invariants of the component model under every interleaving: offered = enqueued + dropped (counting form), nothing is ever dropped at a non-discarding target, every drop "
             "happens at a full buffer and is counted, a send to a discarding target is always enabled (never blocks) (Properties/ExecLedger); on every edge of the product model of the whole tree, for every global schedule: drops only at discarding children, each "
             "counted, receipts + drops = offers (tree_discard_any_global_schedule). Real runs: per-edge multiset equations relative to what "
             "the parent received, discarded_events_total per node id, gated scenarios for progress.",
        note="Trusted as C01. Found and repaired: F4 (handlers ignored discard_on_full_buffer and blocked the parent).",
    ),
    "C05": dict(
        text="Proof of the discipline + measured runtime (partial): the component model has exactly `workers` worker threads each processing one event at a time, so at most `workers` processing "
             "calls are in progress (structural; pinned by skeleton_startWorkers/skeleton_runNode); Init/Setup of every node and handler precede worker start (skeleton_setupNodes, skeleton_execute). "
             "Data-race freedom is a property of the Go memory model: both tiers also run the harness under the Go race detector (a report is attributed to the running case); high-water marks, setup counts and Shutdown/Process overlap are judged on real runs.",
        note="Partial: data races cannot be stated about a Lean model of firebolt alone; they are searched for with -race on the real code. Trusted as C01.",
        technique="Lean 4 component model + regenerated skeleton equalities + trace monitor + Go race detector",
    ),
    "C16": dict(
        text="Proof: processed + filtered + failed = received for every oracle and input, a fanout result counts once, counters depend only on the node's own input (counters_partition, "
             "fanout_counts_once, counters_local); counter invariant under every interleaving in the component model (Properties/ExecLedger) and at every node of the product model of the whole tree (tree_counters_any_global_schedule). Real runs: prometheus counters per run-unique node id "
             "are read back and compared with the model's prediction and with the oracle applied to what the node actually received.",
        note="Trusted as C01, plus unique node ids (C13).",
    ),

    "C19": dict(
        text="Proof of the logic + measured runtime (partial): token-bucket law for every operation sequence (bucket_bound, window_bound, time_for_grants: n grants need at "
             "least (n - burst)/rate time, from any reachable bucket state); model wiring: every recovery emission takes exactly one token of the single shared limiter and main-"
             "consumer events none (emission_takes_token, main_untouched); source wiring regenerated from /repo on every run and checked by kernel rfl: limiter built as "
             "rate.NewLimiter(rate.Limit(maxRecordsPerSec), 100) and mentioned nowhere else but the Wait that precedes the send in recoverSingleEvent "
             "(skeleton_limiterUses, skeleton_recoverSingleEvent, skeleton_kafkaProcessEvent). Events per second are measured on the real code against the model's lower bound.",
        note="Partial: the seconds are a runtime quantity and cannot be exhibited in Lean; they are measured with the really-constructed limiter. Trusted: x/time/rate's bucket contract, "
             "the extractor, wall-clock margins.",
        technique="Lean 4 theorems (token bucket, wiring) + regenerated source facts checked by rfl + timing harness on the real limiter",
    ),
    "C14": dict(
        text="Proof: per-attempt conservation (every document of a bulk response is answered now xor carried over: handle_conserve/attempt_conserve) and hence exactly-once "
             "answering over the whole retry chain for every outcome script (chain_exactly_once); success only for 2xx (success_only_if_ok); only retryable failures are "
             "carried and never beyond the budget (carried_only_retryable, sends_within_budget, docResult_sends); batches never exceed batch-size and batching neither loses nor "
             "reorders (chunks_le, chunks_flatten); in-flight requests never exceed index-workers (pool_conserved, pool_bound); a document's answer is determined by its own "
             "script (docResult_success). The Shutdown clause is FALSE on the unchanged code: shutdown_drops_partial_batch is a kernel-checked witness (known finding F8). "
             "Tied to the real node over a scripted bulk service; timing clauses are measured.",
        note="Trusted: Lean kernel, model transcription, scripted bulk service, wall-clock margins. F7 (late response re-ran the batch) was found and repaired; F8 (Shutdown drops "
             "the partial batch and does not await in-flight requests) is a known finding, matched by clause unanswered-after-shutdown only.",
    ),
    "C15": dict(
        text="Proof (decision logic stated outright): a record is produced iff the payload is a produce request and a topic is known, the request's topic wins, the "
             "value is unchanged, nothing goes to children (produce_iff, produce_topic_value, wrong_type_rejected); the error JSON preserves structured errors and maps "
             "everything else to ERR_UNKNOWN + text (structured_preserved, unstructured_unknown); a report is one object with exactly timestamp/event/error, and an "
             "unserialisable payload changes only the event field (report_shape, report_payload_independent). Tied to the real nodes over a scripted producer; produced "
             "bytes are parsed with encoding/json. Sequences of requests on one node are read back only at the end, so aliasing between records is visible.",
        note="Trusted: Lean kernel, model transcription, encoding/json (exercised only), scripted producer.",
    ),
    "C11": dict(
        text="Proof: for every tree, subscription assignment, message type and failing subset, the Lean model of the delivery walk hands the message to exactly the "
             "subscribed source and nodes, each exactly once in preorder (deliver_exact, deliver_nodup, via walk_N/walk_L by mutual structural induction and "
             "consecutive preorder indices flatten_idx_N/L), and reports exactly the failures of failing recipients without stopping (deliver_exact, errors part). "
             "Tied to Executor.deliverMessage on a real executor; re-subscription between messages is part of the generated histories.",
        note="Trusted: Lean kernel, model transcription, harness nodes. Message fields are compared between sender and every recipient by the harness.",
    ),
    "C13": dict(
        text="Proof: for every tree shape, acceptance by the Lean model of validate implies every clause of consistency except global id uniqueness "
             "(accept_sound: registered source/nodes/handlers, parent-child type compatibility, handler rules, transport) and id uniqueness along every "
             "first-child spine across roots (accepted_spine_unique, via an exact characterisation of the code's walk: uniqCode_iff, uniqRoots_iff); defaults are "
             "filled everywhere and the timeout defaulted (defaults_filledN/L/O, accepted_defaults). The full equivalence is FALSE on the unchanged code: "
             "sibling_duplicate_accepted is a kernel-checked witness (known finding F1, replayed through config.Read). Tied to config.Read by generated YAML files.",
        note="Trusted: Lean kernel, model transcription, YAML parser and env expansion (exercised only), harness registry. Known finding F1 is listed in known_findings.json; "
             "any other violation (e.g. a duplicate ON a first-child spine accepted) is still reported.",
    ),
    "C10": dict(
        text="Proof: for every history (any order/repetition of end-of-partition signals) the Lean model of the receiver delivers nothing until the number of "
             "DISTINCT partitions that signalled reaches the partition count (silent_until_caught_up, released_only_when_all, eofs_nodup), holds until then "
             "exactly the most recent decodable record per record key (catching_up), releases exactly the non-ack entries (release), afterwards delivers "
             "each non-ack record once and nothing else (after_release); replay start offset law (start_offset). Tied to the Go receiver fed by the real sender.",
        note="Trusted: Lean kernel, model transcription, JSON/base64 codec (exercised, not proved), scripted Kafka client. Found and repaired: F2 (signals were counted, not partitions).",
    ),
    "C12": dict(
        text="Proof: record keys are injective on (type,key) for types without '-' (ukey_inj, record_key_iff), collide otherwise (collision_with_dash); a send/ack "
             "is one record with unchanged fields keyed by the record key (produce_faithful, send_ack_same_key); deleting a record shadowed by a later record "
             "with the same key never changes what a catching-up receiver holds (compaction_safe). The byte-level codec is checked differentially: every record "
             "produced by the real sender is decoded and compared field by field, then fed to the real receiver and judged by C10's Spec.",
        note="Trusted: as C10. The JSON/base64 codec is modelled as an abstract faithful codec; its fidelity is established only by the differential check "
             "(UTF-8 incl. escapes, quotes, <>&, 4-byte runes, empty and binary payloads).",
    ),
    "C07": dict(
        text="Proof: in the Lean model of recoverSingleEvent/processError a delivered record is emitted exactly when it lies in [from,to) of the partition's "
             "active window, once, flagged, for one limiter token (recover_emits, recover_tokens); main-consumer events are never flagged (flags); the first "
             "record at/after 'to' completes and broadcasts (completes_at_end, complete_removes); an uninterrupted reader emits exactly the remaining window "
             "for every window length (window_run, induction); truncation restarts from the low watermark or closes (truncation_one). "
             "Tied to the Go code by differential runs of the real RecoveryConsumer over a scripted cursor client, judged by an independent Spec monitor.",
        note="Trusted: Lean kernel, model transcription, scripted Kafka cursor client, JSON codec, harness/driver. Found and repaired through this check: "
             "F5 (window was (from,to]) and F10 (stale in-memory progress applied to a different request).",
    ),
    "C09": dict(
        text="Proof: RefreshAssignments makes the client read exactly owned x outstanding (candidates_char, refresh_effect), revocation empties the active set so "
             "nothing is emitted afterwards (revoke_stops, revoke_then_silent), a successor without in-memory state resumes exactly at the replicated progress "
             "point (successor_resumes, crash_state) and old and new owner together emit exactly the window (crash_union, crash_union_model). "
             "Tied to the Go code by two-incarnation histories with crash points drawn over the whole op list.",
        note="Trusted as C07, plus the harness's replay of the recorded message log into the successor (C08 gives the Lean side). The 10 s refresh period is "
             "represented by explicit 'refresh' operations; the wall-clock period itself is not verified.",
    ),
    "C20": dict(
        text="Proof: overlay laws for every parameter map (each librdkafka.-prefixed parameter reaches the client configuration verbatim under the "
             "stripped key and wins over the default; unprefixed parameters never change it: overlay_top, overlay_sub, overlay_ignores_unprefixed, "
             "overlay_filter_prefixed), checkConfig accepts exactly the listed configurations (checkConfig_iff), typed getters return value-or-default "
             "exactly when it parses and lies within bounds (int/string/float, the float law for every parser/formatter pair that round-trips). "
             "Tied to the four real buildConfigMap functions, checkConfig and the getters by differential runs.",
        note="Trusted: Lean kernel, model transcription incl. re-implemented Atoi/ParseBool (differentially compared with Go), Go's float parsing/formatting "
             "as parameters. atoi∘itoa is kernel-evaluated on boundary values, not proved for all n.",
    ),
    "C08": dict(
        text="Proof: for every operation sequence the Lean model of the recovery tracker satisfies: merge coverage = old ∪ new (add_covered), "
             "update touches only the head request when its 'to' matches, completion removes exactly the named requests, get returns the oldest, "
             "and state-based replication: a replica that saw all broadcasts or ANY log compaction of them (Compacts relation) holds the sender's "
             "state (snapshot_replication, compaction_invisible). Tied to the Go tracker by differential runs with two real replica trackers fed the real JSON payloads.",
        note="Trusted: Lean kernel, model transcription, JSON codec treated as identity (exercised, not proved), recording FBContext. "
             "Replication is proved for arbitrary histories (snapshot_replication_general) for every partition the sender wrote last.",
    ),
    "C06": dict(
        text="Proof: the lag-cap arithmetic, trimming and error-abort rules of assignPartitions are proved in Lean for all int64-range inputs "
             "of the statement (no wrap-around, exact start offset, exact request range, abort on any query error). The Lean model is tied to "
             "the Go code by a differential check on boundary-biased generated assignments over a scripted Kafka client.",
        note="Trusted: Lean kernel, model transcription, scripted Kafka client standing in for librdkafka, harness/driver. "
             "Theorems are about the model; the code is covered through the correspondence check and the Spec oracle.",
    ),
}
NOT_APPLICABLE = {}
