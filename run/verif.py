#!/usr/bin/env python3
"""Orchestrator of the firebolt verification machinery (see /verif/DESIGN.md section 5).

  verif.py setup                        build everything from files on disk (offline)
  verif.py check <ID> [--tier quick|thorough]
  verif.py replay <replay.json>         re-run the case recorded in a replay file

A check (1) regenerates Generated/*.lean from /repo, (2) builds the Lean project (= checks the
theorems) and audits axioms, (3) rebuilds the Go harness against /repo's working tree with -tags verif,
(4) runs corpus + generated cases through the real code and through the Lean model/Spec, (5) decides.
Exit 0 = property held on everything explored; exit 1 + "VIOLATION property=<id> replay=<path>".
"""
import fcntl
import hashlib
import json
import os
import re
import subprocess
import sys
import time

ROOT = os.path.dirname(os.path.dirname(os.path.abspath(__file__)))
REPO = os.environ.get("VERIF_REPO", "/repo")
LEAN = os.path.join(ROOT, "lean")
BUILD = os.path.join(ROOT, "build")
HARNESS_SRC = os.path.join(ROOT, "harness")
EXTRACTOR_SRC = os.path.join(ROOT, "extractor")
HARNESS = os.path.join(BUILD, "fbharness")
HARNESS_RACE = os.path.join(BUILD, "fbharness-race")
EXTRACTOR = os.path.join(BUILD, "fbextract")
DRIVER = os.path.join(LEAN, ".lake", "build", "bin", "fbdriver")
ALLOWED_AXIOMS = {"propext", "Classical.choice", "Quot.sound"}

GOENV = dict(os.environ, GOFLAGS="-mod=mod", GOPROXY="off", GOSUMDB="off", GOTOOLCHAIN="local",
             CGO_ENABLED=os.environ.get("CGO_ENABLED", "1"))

sys.path.insert(0, os.path.dirname(os.path.abspath(__file__)))
from props import PROPS, TRUSTED_BASE  # noqa: E402


def log(*a):
    print("[verif]", *a, file=sys.stderr, flush=True)


def sh(cmd, cwd=None, env=None, timeout=None, inp=None):
    p = subprocess.run(cmd, cwd=cwd, env=env, timeout=timeout, input=inp, stdout=subprocess.PIPE,
                       stderr=subprocess.STDOUT, text=True, shell=isinstance(cmd, str))
    return p.returncode, p.stdout


class Lock:
    """file lock so that checks running in parallel do not rebuild on top of each other"""

    def __init__(self, name):
        os.makedirs(BUILD, exist_ok=True)
        self.path = os.path.join(BUILD, name + ".lock")

    def __enter__(self):
        self.f = open(self.path, "w")
        fcntl.flock(self.f, fcntl.LOCK_EX)
        return self

    def __exit__(self, *a):
        fcntl.flock(self.f, fcntl.LOCK_UN)
        self.f.close()


# ------------------------------------------------------------------------------------------ builds

def repo_fingerprint():
    """hash of the Go sources of /repo's working tree (cache key for harness builds)"""
    h = hashlib.sha256()
    for d, dirs, files in os.walk(REPO):
        dirs[:] = sorted(x for x in dirs if x not in (".git", "vendor"))
        for f in sorted(files):
            if f.endswith(".go") or f in ("go.mod", "go.sum"):
                p = os.path.join(d, f)
                h.update(p.encode())
                try:
                    h.update(open(p, "rb").read())
                except OSError:
                    pass
    for d, dirs, files in os.walk(HARNESS_SRC):
        for f in sorted(files):
            if f.endswith(".go") or f == "go.mod":
                h.update(open(os.path.join(d, f), "rb").read())
    return h.hexdigest()


def build_harness(race=False):
    """go build the harness against /repo's current working tree; returns (ok, output)"""
    target = HARNESS_RACE if race else HARNESS
    with Lock("go"):
        fp = repo_fingerprint() + ("-race" if race else "")
        stamp = target + ".stamp"
        if os.path.exists(target) and os.path.exists(stamp) and open(stamp).read() == fp:
            return True, "cached"
        for p in (target, stamp):
            if os.path.exists(p):
                os.remove(p)
        rc, out = sh(["cp", os.path.join(REPO, "go.sum"), os.path.join(HARNESS_SRC, "go.sum")])
        cmd = ["go", "build", "-tags", "verif"] + (["-race"] if race else []) + ["-o", target, "."]
        rc, out = sh(cmd, cwd=HARNESS_SRC, env=GOENV, timeout=900)
        if rc == 0:
            open(stamp, "w").write(fp)
        return rc == 0, out


def build_extractor():
    if not os.path.isdir(EXTRACTOR_SRC):
        return True, "none"
    with Lock("go"):
        rc, out = sh(["go", "build", "-o", EXTRACTOR, "."], cwd=EXTRACTOR_SRC, env=GOENV, timeout=600)
        return rc == 0, out


def closure_roots():
    """property -> lean names of the functions pinned in its property file (source_* / skeleton_* theorems): the roots of
    the influence closure the extractor computes"""
    roots = {}
    pdir = os.path.join(LEAN, "Firebolt", "Properties")
    for f in sorted(os.listdir(pdir)):
        m = re.match(r"(C\d\d)\.lean$", f)
        if m:
            src = open(os.path.join(pdir, f)).read()
            roots[m.group(1)] = sorted(set(re.findall(r"theorem (?:source|skeleton)_(\w+)", src)))
    return roots


def closure_diff(pid):
    """functions whose digest differs between Generated/Closure.lean and Expected/Closure.lean for a property"""
    def load(path):
        d, cur = {}, None
        if not os.path.exists(path):
            return d
        for l in open(path):
            m = re.match(r"def (C\d\d)", l)
            if m:
                cur = m.group(1)
                d[cur] = {}
            else:
                m = re.match(r'\s+\("([^"]+)", "([0-9a-f]+)"\)', l)
                if m and cur:
                    d[cur][m.group(1)] = m.group(2)
        return d
    g = load(os.path.join(LEAN, "Firebolt", "Generated", "Closure.lean")).get(pid, {})
    e = load(os.path.join(LEAN, "Firebolt", "Expected", "Closure.lean")).get(pid, {})
    out = []
    for k in sorted(set(g) | set(e)):
        if k not in e:
            out.append(k + " (new in the closure)")
        elif k not in g:
            out.append(k + " (gone from the closure)")
        elif g[k] != e[k]:
            out.append(k + " (changed)")
    return out


def regenerate():
    """delete and regenerate lean/Firebolt/Generated/*.lean from /repo's sources"""
    gen = os.path.join(LEAN, "Firebolt", "Generated")
    if not os.path.isdir(EXTRACTOR_SRC):
        return True, "no extractor"
    ok, out = build_extractor()
    if not ok:
        return False, out
    os.makedirs(gen, exist_ok=True)
    tmp = os.path.join(BUILD, "generated.tmp")
    os.makedirs(tmp, exist_ok=True)
    for f in os.listdir(tmp):
        os.remove(os.path.join(tmp, f))
    roots_file = os.path.join(BUILD, "closure_roots.json")
    json.dump(closure_roots(), open(roots_file, "w"), indent=0, sort_keys=True)
    rc, out = sh([EXTRACTOR, "-repo", REPO, "-out", tmp, "-roots", roots_file], timeout=120)
    if rc != 0:
        return False, out
    # only touch files whose content changed so lake's incremental build stays incremental
    new = set(os.listdir(tmp))
    for f in os.listdir(gen):
        if f not in new:
            os.remove(os.path.join(gen, f))
    for f in new:
        src, dst = os.path.join(tmp, f), os.path.join(gen, f)
        data = open(src).read()
        if not os.path.exists(dst) or open(dst).read() != data:
            open(dst, "w").write(data)
    return True, out


def lake_build(targets):
    rc, out = sh(["lake", "build"] + targets, cwd=LEAN, timeout=3000)
    return rc == 0, out


THEOREM_RE = re.compile(r"^(?:@\[[^\]]*\]\s*)?(?:private\s+|protected\s+)?theorem\s+([^\s\(\{\[:]+)", re.M)
NAMESPACE_RE = re.compile(r"^namespace\s+(\S+)", re.M)


def bridge_module(pid):
    """Properties/<pid>B.lean, when present, holds the property's bridge theorems (the model's own observation satisfies
    the executable Spec); its theorems are obligations of the property like those of Properties/<pid>.lean"""
    path = os.path.join(LEAN, "Firebolt", "Properties", pid + "B.lean")
    return path if os.path.exists(path) else None


def property_theorems(pid):
    """(qualified name, line) of every theorem in Properties/<pid>.lean (lines refer to that file) followed by those of
    Properties/<pid>B.lean (line 0)"""
    path = os.path.join(LEAN, "Firebolt", "Properties", pid + ".lean")
    if not os.path.exists(path):
        return path, []
    src = open(path).read()
    ns = NAMESPACE_RE.search(src)
    prefix = (ns.group(1) + ".") if ns else ""
    res = []
    for m in THEOREM_RE.finditer(src):
        line = src.count("\n", 0, m.start()) + 1
        res.append((prefix + m.group(1), line))
    bpath = bridge_module(pid)
    if bpath:
        bsrc = open(bpath).read()
        bns = NAMESPACE_RE.search(bsrc)
        bprefix = (bns.group(1) + ".") if bns else ""
        for m in THEOREM_RE.finditer(bsrc):
            res.append((bprefix + m.group(1), 0))
    return path, res


def forbidden_tokens(paths):
    """grep for sorry/admit/axiom/native_decide/... outside comments"""
    bad = []
    pat = re.compile(r"\b(sorry|admit|native_decide|bv_decide|implemented_by|unsafe)\b|^\s*axiom\s|maxHeartbeats\s+0")
    for p in paths:
        src = open(p).read()
        src = re.sub(r"/-.*?-/", lambda m: "\n" * m.group(0).count("\n"), src, flags=re.S)
        for i, line in enumerate(src.split("\n"), 1):
            line = line.split("--")[0]
            if pat.search(line):
                bad.append("%s:%d: %s" % (os.path.relpath(p, LEAN), i, line.strip()))
    return bad


def lean_sources():
    res = []
    for d, _, files in os.walk(os.path.join(LEAN, "Firebolt")):
        for f in files:
            if f.endswith(".lean"):
                res.append(os.path.join(d, f))
    for d, _, files in os.walk(os.path.join(LEAN, "Driver")):
        for f in files:
            if f.endswith(".lean"):
                res.append(os.path.join(d, f))
    return sorted(res)


def check_proofs(pid, thorough):
    """build the property module, audit axioms. returns dict(obligations, discharged, failed:[names], detail)"""
    path, thms = property_theorems(pid)
    module = "Firebolt.Properties." + pid
    res = dict(obligations=[], failed=[], detail="", axioms={}, checker_cmd="")
    if not thms:
        res["failed"].append(module + " (no theorems found)")
        res["obligations"].append(module)
        return res
    res["obligations"] = [t for t, _ in thms]
    modules = [module] + ([module + "B"] if bridge_module(pid) else [])
    thms_main = [(t, l) for t, l in thms if l > 0]
    with Lock("lake"):
        ok, out = lake_build(modules + ["fbdriver"])
        res["checker_cmd"] = "cd lean && lake build %s fbdriver && lake env lean <audit of #print axioms>" % " ".join(modules)
        if not ok:
            res["detail"] = out[-6000:]
            # map error lines in the property file to theorems; any other failing module fails all
            rel = os.path.relpath(path, LEAN)
            err_lines = [int(m.group(1)) for m in re.finditer(r"error: " + re.escape(rel) + r":(\d+):\d+", out)]
            other = re.findall(r"error: (Firebolt/[A-Za-z0-9_/]+\.lean|Driver/[A-Za-z0-9_/]+\.lean):", out)
            other = [o for o in other if o != rel]
            if other or not err_lines:
                res["failed"] = list(res["obligations"])
                res["failed_reason"] = "build of %s failed in %s" % (module, sorted(set(other)) or "?")
            else:
                starts = [l for _, l in thms_main] + [10 ** 9]
                for el in err_lines:
                    for i, (t, l) in enumerate(thms_main):
                        if l <= el < starts[i + 1] and t not in res["failed"]:
                            res["failed"].append(t)
                if not res["failed"]:
                    res["failed"] = list(res["obligations"])
            return res
        # axiom audit
        audit = os.path.join(BUILD, "Audit_%s.lean" % pid)
        with open(audit, "w") as f:
            for mod in modules:
                f.write("import %s\n" % mod)
            for t, _ in thms:
                f.write("#print axioms %s\n" % t)
        rc, out = sh(["lake", "env", "lean", audit], cwd=LEAN, timeout=900)
        cur = None
        for line in out.split("\n"):
            m = re.match(r"'(.+)' depends on axioms: \[(.*)\]", line)
            m2 = re.match(r"'(.+)' does not depend on any axioms", line)
            if m:
                res["axioms"][m.group(1)] = [a.strip() for a in m.group(2).split(",") if a.strip()]
                cur = m.group(1) if not line.rstrip().endswith("]") else None
            elif m2:
                res["axioms"][m2.group(1)] = []
        # multi-line axiom lists
        for m in re.finditer(r"^'([^\n]+)' depends on axioms: \[([^\]]*)\]", out, re.S | re.M):
            res["axioms"][m.group(1)] = [a.strip() for a in m.group(2).replace("\n", " ").split(",") if a.strip()]
        for t, _ in thms:
            if t not in res["axioms"]:
                res["failed"].append(t + " (axiom audit produced no line)")
            elif not set(res["axioms"][t]) <= ALLOWED_AXIOMS:
                res["failed"].append(t + " (axioms %s)" % res["axioms"][t])
        bad = forbidden_tokens(lean_sources())
        if bad:
            res["failed"].append("forbidden tokens: " + "; ".join(bad[:5]))
        if thorough and not res["failed"]:
            for mod in modules:
                rc, out = sh(["lake", "env", "leanchecker", mod], cwd=LEAN, timeout=3000)
                res["leanchecker"] = "ok" if rc == 0 else out[-2000:]
                if rc != 0:
                    res["failed"].append("leanchecker " + mod)
                    break
    return res


# ------------------------------------------------------------------------------------ correspondence

def run_cases(component, lines, harness=None, timeout=600, parallel=1, extra_env=None):
    """lines: list of '<id>\\t<input>'. returns list of verdict dicts. parallel > 1 spreads the cases over several
    harness processes (each case is independent)."""
    harness = harness or HARNESS
    parallel = max(1, min(parallel, len(lines)))
    chunks = [lines[i::parallel] for i in range(parallel)]
    procs = []
    for ch in chunks:
        pr = subprocess.Popen([harness, "exec", component], stdin=subprocess.PIPE, stdout=subprocess.PIPE, stderr=subprocess.PIPE,
                              text=True, env=dict(os.environ, GOMEMLIMIT="6GiB", **(extra_env or {})))
        procs.append((pr, "\n".join(ch) + "\n"))
    import threading
    results = [None] * len(procs)

    def feed(i, pr, data):
        """feed one chunk; if the harness process dies (a panic in a goroutine of the code under test cannot be recovered),
        the case it died on becomes an observation `panic harness-process-died …` and the rest of the chunk is re-run"""
        remaining = [l for l in data.split("\n") if l]
        outs, errs, rc_final = [], "", 0
        first = True
        deadline = time.time() + timeout
        while remaining:
            if not first:
                pr = subprocess.Popen([harness, "exec", component], stdin=subprocess.PIPE, stdout=subprocess.PIPE, stderr=subprocess.PIPE,
                                      text=True, env=dict(os.environ, GOMEMLIMIT="6GiB", **(extra_env or {})))
            first = False
            try:
                o, e = pr.communicate("\n".join(remaining) + "\n", timeout=max(5, deadline - time.time()))
                rc = pr.returncode
            except subprocess.TimeoutExpired:
                pr.kill()
                o, e = pr.communicate()
                rc = -9
                e = (e or "") + "\n[verif] harness timed out after %ss" % timeout
            got = [l for l in (o or "").split("\n") if l.count("\t") == 2]
            outs += got
            done_ids = set(l.split("\t")[0] for l in got)
            remaining = [l for l in remaining if l.split("\t")[0] not in done_ids]
            if rc == 0 or not remaining:
                if rc != 0:
                    errs, rc_final = e, rc
                break
            # the first unprocessed case killed (or hung) the process
            victim = remaining.pop(0)
            tail = [x for x in (e or "").strip().split("\n") if x.strip()]
            if "DATA RACE" in (e or ""):
                stack = [x.strip() for x in e.split("\n") if "/repo/" in x or "firebolt/" in x][:6]
                tail = ["DATA RACE " + " | ".join(stack)]
            why = "timeout" if rc == -9 else (next((x for x in tail if x.startswith("panic:") or x.startswith("fatal error:") or x.startswith("DATA RACE")), tail[-1] if tail else "exit %s" % rc))
            outs.append("%s\tpanic harness-process-died %s" % (victim, why.replace("\t", " ")[:300]))
            if rc == -9:
                errs, rc_final = e, rc
                break
        results[i] = ("\n".join(outs) + "\n", errs, rc_final)
    ths = [threading.Thread(target=feed, args=(i, pr, data)) for i, (pr, data) in enumerate(procs)]
    for t in ths:
        t.start()
    for t in ths:
        t.join()
    impl_lines = []
    crashed = None
    for out, err, rc in results:
        impl_lines += [l for l in (out or "").split("\n") if l]
        if rc != 0:
            crashed = (err or "")[-3000:]
    p2 = subprocess.run([DRIVER, component], input="\n".join(impl_lines) + "\n", stdout=subprocess.PIPE,
                        stderr=subprocess.PIPE, text=True, timeout=timeout)
    impl_by_id = {}
    for l in impl_lines:
        parts = l.split("\t")
        if len(parts) == 3:
            impl_by_id[parts[0]] = (parts[1], parts[2])
    verdicts = []
    for l in p2.stdout.split("\n"):
        if not l:
            continue
        parts = l.split("\t")
        if len(parts) != 6:
            continue
        cid, st, model, clause, scope, tags = parts
        inp_s, impl = impl_by_id.get(cid, ("", ""))
        verdicts.append(dict(id=cid, status=st, model=model, clause=clause, scope=scope,
                             tags=[t for t in tags.split(",") if t], input=inp_s, impl=impl))
    return verdicts, crashed, (p2.stderr[-2000:] if p2.returncode != 0 else None)


def gen_cases(component, seed, n, tier):
    rc, out = sh([HARNESS, "gen", component, "-seed", str(seed), "-n", str(n), "-tier", tier], timeout=600)
    if rc != 0:
        raise RuntimeError("harness gen failed: " + out[-2000:])
    return [l for l in out.split("\n") if l]


def corpus_cases(component):
    d = os.path.join(ROOT, "corpus", component)
    res = []
    if os.path.isdir(d):
        for f in sorted(os.listdir(d)):
            if f.endswith(".case"):
                for i, l in enumerate(open(os.path.join(d, f)).read().split("\n")):
                    l = l.rstrip("\n")
                    if l and not l.startswith("#"):
                        res.append("c-%s-%d\t%s" % (f[:-5], i, l.split("\t")[-1] if "\t" not in l else l.split("\t")[1]))
    return res


def shrink(component, verdict, sep=";"):
    """delta-debug the op list of a failing case: drop segments while the same failure (status+clause) persists"""
    segs = [s.strip() for s in verdict["input"].split(sep)]
    if len(segs) <= 2:
        return verdict
    want = (verdict["status"].replace("DIFF+", ""), verdict["clause"]) if "SPEC" in verdict["status"] else ("DIFF", None)

    def fails(ss):
        vs, _, _ = run_cases(component, ["s\t" + (" %s " % sep).join(ss)], timeout=120)
        if not vs:
            return None
        v = vs[0]
        if want[0] == "SPEC":
            return v if ("SPEC" in v["status"] and v["clause"] == want[1]) else None
        return v if "DIFF" in v["status"] else None

    best = verdict
    budget = 200
    chunk = max(1, (len(segs) - 1) // 2)
    while chunk >= 1 and budget > 0:
        i = 1
        progressed = False
        while i < len(segs) and budget > 0:
            cand = segs[:i] + segs[i + chunk:]
            budget -= 1
            v = fails(cand)
            if v is not None:
                segs = cand
                best = v
                progressed = True
            else:
                i += chunk
        if not progressed:
            chunk //= 2
    best = dict(best)
    best["id"] = verdict["id"] + "-min"
    return best


# ------------------------------------------------------------------------------------------ findings

def load_findings():
    p = os.path.join(ROOT, "known_findings.json")
    if not os.path.exists(p):
        return []
    return json.load(open(p)).get("findings", [])


def match_finding(pid, component, v, findings):
    """a Spec failure is absorbed only by a listed finding with the same property, component and clause, and only
    when the model agrees with the implementation on that case (so a different failure is never absorbed)"""
    if "DIFF" in v["status"]:
        return None
    for f in findings:
        if f.get("status") != "known":
            continue
        if f["property"] == pid and f.get("component") == component and v["clause"] in f.get("clauses", []):
            return f
    return None


# --------------------------------------------------------------------------------------------- check

def translated_counterexamples(failed, seed):
    """When a translated_* obligation no longer checks: evaluate the translated terms (regenerated from /repo just now) and
    the expected observations of the exact theorems on sampled environments (fbdriver transcheck) and return the concrete
    environments on which they differ - a counterexample in terms of the variables, fields and call results of the Go function."""
    if not any(".translated_" in t for t in failed) or not os.path.exists(DRIVER):
        return []
    out = []
    try:
        for sd in (seed, seed + 1000, seed + 2000):
            p = subprocess.run([DRIVER, "transcheck", str(sd), "4000"], stdout=subprocess.PIPE, stderr=subprocess.STDOUT, text=True, timeout=120)
            for l in p.stdout.split("\n"):
                f = l.split("\t")
                if len(f) >= 5 and f[1] == "CEX" and not any(o["fragment"] == f[0] for o in out):
                    out.append(dict(fragment=f[0], environment=f[2], translated_code=f[3].replace("got=", "", 1), expected=f[4].replace("expected=", "", 1)))
    except Exception as e:
        out.append(dict(error=repr(e)))
    return out


def write_replay(pid, seed, name, payload):
    d = os.path.join(ROOT, "replays")
    os.makedirs(d, exist_ok=True)
    path = os.path.join(d, "%s-%s-%s.json" % (pid, seed, name))
    payload = dict(payload, property=pid, seed=seed,
                   replay_cmd="python3 run/verif.py replay " + os.path.relpath(path, ROOT))
    json.dump(payload, open(path, "w"), indent=1)
    return path


def check(pid, tier):
    t0 = time.time()
    seed = int(os.environ.get("VERIF_SEED", "1"))
    prop = PROPS[pid]
    thorough = tier == "thorough"
    findings = load_findings()
    violations = []      # (replay path, suffix)
    known_printed = {}
    notes = []

    # 1. regenerate skeleton / facts from the source
    ok, out = regenerate()
    regen_failed = None
    if not ok:
        regen_failed = out[-3000:]
        notes.append("extractor failed")

    # 2. theorems
    proofs = check_proofs(pid, thorough)
    if regen_failed:
        proofs["failed"].append("Generated/*.lean could not be regenerated from /repo")

    # 3. harness
    ok, out = build_harness()
    harness_failed = None if ok else out[-4000:]

    stats = dict(evaluations=0, distinct=set(), nontrivial=set(), status={}, tags={}, in_scope=0, samples=[],
                 diffs=[], specs=[], crashes=[])
    comp_results = {}

    def run_component(comp, n, sd, label, harness=None):
        lines = corpus_cases(comp) if label == "main" else []
        lines += gen_cases(comp, sd, n, tier)
        allv = []
        B = 2000
        for i in range(0, len(lines), B):
            vs, crashed, derr = run_cases(comp, lines[i:i + B], harness=harness, timeout=prop.get("case_timeout", 1800 if thorough else 150),
                                          parallel=prop.get("parallel", 1),
                                          extra_env={"GORACE": "halt_on_error=1"} if harness == HARNESS_RACE else None)
            allv += vs
            if crashed:
                stats["crashes"].append(dict(component=comp, detail=crashed))
            if derr:
                stats["crashes"].append(dict(component=comp, detail="driver: " + derr))
            missing = len(lines[i:i + B]) - len(vs)
            if missing > 0 and not crashed and not derr:
                stats["crashes"].append(dict(component=comp, detail="%d cases produced no verdict" % missing))
        for v in allv:
            stats["evaluations"] += 1
            h = hashlib.sha1((comp + "\t" + v["input"]).encode()).hexdigest()
            stats["distinct"].add(h)
            if v["tags"]:
                stats["nontrivial"].add(h)
            stats["status"][v["status"]] = stats["status"].get(v["status"], 0) + 1
            if v["scope"] == "in":
                stats["in_scope"] += 1
            for t in v["tags"]:
                k = comp + ":" + t
                stats["tags"][k] = stats["tags"].get(k, 0) + 1
            if "DIFF" in v["status"]:
                stats["diffs"].append((comp, v))
            if "SPEC" in v["status"]:
                stats["specs"].append((comp, v))
        if allv and len(stats["samples"]) < 5:
            for v in allv[:1] + allv[len(allv) // 2:len(allv) // 2 + 1]:
                stats["samples"].append(dict(component=comp, input=v["input"][:600], impl=v["impl"][:600],
                                             model=v["model"][:600], status=v["status"]))
        return allv

    if not harness_failed:
        for comp, nq, nt in prop["components"]:
            try:
                run_component(comp, nt if thorough else nq, seed + prop.get("seed_offset", 0), "main")
            except Exception as e:  # harness crash etc.
                stats["crashes"].append(dict(component=comp, detail=repr(e)[:2000]))
        # the same component under the Go race detector (C05: data races are searched for on the real code)
        if prop.get("race"):
            okr, outr = build_harness(race=True)
            if not okr:
                stats["crashes"].append(dict(component="race-build", detail=outr[-1500:]))
            else:
                for comp, nq, nt in prop["components"]:
                    if comp not in prop.get("race_components", [c for c, _, _ in prop["components"]]):
                        continue
                    try:
                        run_component(comp, (nt // 4) if thorough else prop.get("race_quick", 60), seed + 7717, "race", harness=HARNESS_RACE)
                        notes.append("race detector: %s ran under -race" % comp)
                    except Exception as e:
                        stats["crashes"].append(dict(component=comp + "(race)", detail=repr(e)[:2000]))
        # extra runtime checks (timing harnesses etc.)
        for extra in prop.get("extras", []):
            try:
                r = extra(dict(tier=tier, seed=seed, harness=HARNESS, build_harness=build_harness, run_cases=run_cases,
                               gen_cases=gen_cases, root=ROOT, repo=REPO, sh=sh, goenv=GOENV, log=log))
            except Exception as e:
                r = dict(name=getattr(extra, "__name__", "extra"), ok=False, detail="exception: %r" % (e,), failing=None)
            comp_results[r["name"]] = r
            stats["evaluations"] += r.get("evaluations", 0)
            if not r["ok"]:
                if r.get("failing"):
                    stats["specs"].append((r["name"], dict(id=r["name"], status="SPEC", clause=r.get("clause", r["name"]),
                                                           input=json.dumps(r["failing"])[:20000], impl=r.get("detail", ""),
                                                           model="", scope="in", tags=[])))
                else:
                    stats["crashes"].append(dict(component=r["name"], detail=r.get("detail", "")))

    # 4. decide
    unknown_specs = []
    for comp, v in stats["specs"]:
        f = match_finding(pid, comp, v, findings)
        if f:
            known_printed.setdefault(f["id"], (f, v))
        else:
            unknown_specs.append((comp, v))

    broken = []
    if proofs["failed"]:
        broken.append(("theorem", proofs["failed"]))
    if harness_failed:
        broken.append(("harness-build", [harness_failed[-1500:]]))
    if stats["diffs"]:
        broken.append(("correspondence", ["%s: %s" % (c, v["id"]) for c, v in stats["diffs"][:5]]))
    if stats["crashes"]:
        broken.append(("crash", [c["component"] + ": " + c["detail"][-800:] for c in stats["crashes"][:3]]))

    if unknown_specs:
        # prefer a witness whose clause is not the clause of a listed finding (those are reported only because the model
        # disagrees with the code on the same case); generated cases keep their order otherwise
        known_clauses = {c for f in findings if f.get("status") == "known" and f["property"] == pid for c in f.get("clauses", [])}
        unknown_specs.sort(key=lambda cv: cv[1]["clause"] in known_clauses)
        comp, v = unknown_specs[0]
        try:
            if comp in [c for c, _, _ in prop["components"]] and prop.get("shrink", True):
                v = shrink(comp, v)
        except Exception as e:
            notes.append("shrink failed: %r" % (e,))
        path = write_replay(pid, seed, v["id"].replace("/", "_"), dict(
            kind="failing-input", component=comp, input=v["input"], observed=v["impl"], model=v["model"],
            spec_clause=v["clause"], status=v["status"], other_failing=len(unknown_specs) - 1,
            broken=[(k, d[:3]) for k, d in broken], failed_obligations=proofs["failed"],
            translated_counterexamples=translated_counterexamples(proofs["failed"], seed)))
        violations.append((path, ""))
    elif broken:
        # something no longer checks but no input violates the Spec yet: failing-input search with a larger budget
        found = None
        if not harness_failed:
            for k in range(1, 6 if not thorough else 12):
                for comp, nq, nt in prop["components"]:
                    try:
                        before = len(stats["specs"])
                        run_component(comp, (nt if thorough else nq) * 4, seed * 1000 + k, "search")
                        for c2, v2 in stats["specs"][before:]:
                            if not match_finding(pid, c2, v2, findings):
                                found = (c2, v2)
                                break
                    except Exception as e:
                        notes.append("search: %r" % (e,))
                    if found:
                        break
                if found:
                    break
        if found:
            comp, v = found
            try:
                v = shrink(comp, v)
            except Exception as e:
                notes.append("shrink failed: %r" % (e,))
            path = write_replay(pid, seed, v["id"].replace("/", "_"), dict(
                kind="failing-input", component=comp, input=v["input"], observed=v["impl"], model=v["model"],
                spec_clause=v["clause"], status=v["status"], broken=[(k, d[:3]) for k, d in broken],
                failed_obligations=proofs["failed"], translated_counterexamples=translated_counterexamples(proofs["failed"], seed)))
            violations.append((path, ""))
        else:
            first_diff = None
            if stats["diffs"]:
                c, v = stats["diffs"][0]
                try:
                    v = shrink(c, v)
                except Exception:
                    pass
                first_diff = dict(component=c, input=v["input"], observed=v["impl"], model=v["model"])
            path = write_replay(pid, seed, "unproved", dict(
                kind="no-failing-input-found", no_longer_checks=[dict(kind=k, items=d[:10]) for k, d in broken],
                closure_functions_changed=closure_diff(pid),
                # semantic obligations about the code as it is now (translated by extractor/translate.go) that still check:
                # when only pins (source_*/skeleton_*/closure_unchanged) are listed above and these hold, the translated
                # fragments still do what the models say - the change is outside them or preserves their behaviour
                translated_obligations_still_checking=sorted(t for t in proofs.get("obligations", [])
                                                             if ".translated_" in t and t not in proofs["failed"]),
                translated_obligations_broken=sorted(t for t in proofs["failed"] if ".translated_" in t),
                translated_counterexamples=translated_counterexamples(proofs["failed"], seed),
                first_disagreement=first_diff, lean_output=proofs.get("detail", "")[-3000:],
                searched="failing-input search over derived seeds with 4x budget per seed found no Spec violation"))
            violations.append((path, " no-failing-input-found"))

    for fid, (f, v) in known_printed.items():
        print("KNOWN-FINDING: property=%s %s [%s]" % (pid, f["what"], fid))

    # 5. evidence
    obligations = len(proofs["obligations"])
    discharged = obligations - len([x for x in proofs["failed"] if x.split(" ")[0] in proofs["obligations"]])
    if any(x.split(" ")[0] not in proofs["obligations"] for x in proofs["failed"]):
        discharged = min(discharged, max(0, obligations - 1))
    # the translated fragments, exercised: samples per fragment on which the regenerated term and the expected observation agree
    trans_cov = {}
    try:
        if os.path.exists(DRIVER) and any(".translated_" in t for t in proofs["obligations"]):
            pr = subprocess.run([DRIVER, "transcheck", str(seed), "20000" if thorough else "2000"], stdout=subprocess.PIPE,
                                stderr=subprocess.STDOUT, text=True, timeout=300)
            for l in pr.stdout.split("\n"):
                f = l.split("\t")
                if len(f) >= 3:
                    trans_cov[f[0]] = (f[1] + " " + f[2])[:300]
    except Exception as e:
        trans_cov = dict(error=repr(e))
    ev = dict(
        property_id=pid, tier=tier, seed=seed, level="proof",
        coverage=dict(
            obligations=obligations, discharged=discharged,
            checker_cmd=proofs.get("checker_cmd") or "lake build",
            trusted_base=TRUSTED_BASE + prop.get("trusted", []),
            theorems=proofs["obligations"], failed_obligations=proofs["failed"], axioms=proofs.get("axioms", {}),
            evaluations=stats["evaluations"], distinct_nontrivial=len(stats["nontrivial"]),
            distinct=len(stats["distinct"]),
            rule=prop.get("rule", "cases = directed prefix + corpus + PRNG-generated (seed above); distinct by sha1 of "
                          "the canonical input; non-trivial = the Lean model reports at least one branch tag for it"),
            traces_validated_against_impl=stats["evaluations"], in_scope_of_quantifier=stats["in_scope"],
            status_histogram=stats["status"], branch_tags=dict(sorted(stats["tags"].items())),
            samples=stats["samples"] or [dict(note="no correspondence cases ran")],
            extras={k: {kk: vv for kk, vv in r.items() if kk not in ("failing",)} for k, r in comp_results.items()},
            translated_obligations=[t for t in proofs["obligations"] if ".translated_" in t],
            translated_fragments_sampled=trans_cov,
            known_findings_seen=sorted(known_printed.keys()),
            not_yet_proved=prop.get("not_yet_proved", []), leanchecker=proofs.get("leanchecker"), notes=notes),
        assumptions=prop.get("assumptions", []),
        wall_s=round(time.time() - t0, 2), violations=len(violations))
    os.makedirs(os.path.join(ROOT, "evidence"), exist_ok=True)
    json.dump(ev, open(os.path.join(ROOT, "evidence", pid + ".json"), "w"), indent=1, sort_keys=True)

    for path, suffix in violations:
        print("VIOLATION property=%s replay=%s%s" % (pid, path, suffix))
    log("%s %s: %d cases, status %s, obligations %d/%d, %.1fs" % (pid, tier, stats["evaluations"], stats["status"],
                                                                 discharged, obligations, time.time() - t0))
    return 1 if violations else 0


def setup():
    os.makedirs(BUILD, exist_ok=True)
    ok, out = regenerate()
    if not ok:
        print(out)
        return 1
    # a failing build here is not a failure of the set-up: on a tree that changed a pinned function the pin theorems fail,
    # and it is the checks' business to say so (each check builds its own module and reports); build what can be built
    ok, out = lake_build([])
    print(out[-3000:])
    if not ok:
        print("setup: lake build reported failures (left to the checks to report)")
        lake_build(["fbdriver"])
    ok, out = build_harness()
    print(out[-3000:])
    if not ok:
        print("setup: harness build failed (left to the checks to report)")
    return 0


def replay(path):
    r = json.load(open(path))
    print(json.dumps({k: r[k] for k in r if k in ("property", "kind", "component", "spec_clause", "no_longer_checks")}, indent=1))
    if r.get("kind") != "failing-input" or "component" not in r:
        return 0
    ok, out = build_harness()
    if not ok:
        print(out)
        return 2
    if r["component"] not in [c for p in PROPS.values() for c, _, _ in p["components"]]:
        print("runtime check; input:", r["input"])
        return 0
    vs, crashed, derr = run_cases(r["component"], ["replay\t" + r["input"]])
    for v in vs:
        print(json.dumps(v, indent=1))
    return 1 if any(v["status"] != "OK" for v in vs) else 0


def main():
    if len(sys.argv) < 2:
        print(__doc__)
        return 2
    if sys.argv[1] == "setup":
        return setup()
    if sys.argv[1] == "check":
        pid = sys.argv[2]
        tier = os.environ.get("VERIF_TIER", "quick")
        if "--tier" in sys.argv:
            tier = sys.argv[sys.argv.index("--tier") + 1]
        return check(pid, tier)
    if sys.argv[1] == "replay":
        return replay(sys.argv[2])
    print(__doc__)
    return 2


if __name__ == "__main__":
    sys.exit(main())
