#!/usr/bin/env python3
"""Prepare scratch worktrees for a round of seeded changes: /tmp/mut/<Cxx> (detached worktree of /repo HEAD) with
.mutout/PROPERTY.txt = the property as given in properties.jsonl + one line per idea already taken (headings of the
READMEs of earlier seeded changes of that property). Nothing of /verif's machinery goes in.
  mutsetup.py [Cxx ...]      (default: all)
  mutsetup.py --remove       remove all worktrees under /tmp/mut
"""
import json, os, subprocess, sys
ROOT = os.path.dirname(os.path.dirname(os.path.abspath(__file__)))
def sh(*a): return subprocess.run(a, stdout=subprocess.PIPE, stderr=subprocess.STDOUT, text=True)
if "--remove" in sys.argv:
    for d in sorted(os.listdir("/tmp/mut")) if os.path.isdir("/tmp/mut") else []:
        if os.path.isdir("/tmp/mut/" + d):
            sh("git", "-C", "/repo", "worktree", "remove", "--force", "/tmp/mut/" + d)
    sh("git", "-C", "/repo", "worktree", "prune")
    sys.exit(0)
props = [json.loads(l) for l in open(os.path.join(ROOT, "properties.jsonl"))]
want = [a for a in sys.argv[1:] if a.startswith("C")] or [p["id"] for p in props]
os.makedirs("/tmp/mut", exist_ok=True)
for p in props:
    if p["id"] not in want:
        continue
    wt = "/tmp/mut/" + p["id"]
    sh("git", "-C", "/repo", "worktree", "remove", "--force", wt)
    sh("git", "-C", "/repo", "worktree", "prune")
    r = sh("git", "-C", "/repo", "worktree", "add", "-q", "--detach", wt, "HEAD")
    if r.returncode != 0:
        print(r.stdout); continue
    os.makedirs(wt + "/.mutout", exist_ok=True)
    taken = []
    for d in sorted(os.listdir(os.path.join(ROOT, "seeded"))):
        if d.startswith(p["id"] + "-"):
            rp = os.path.join(ROOT, "seeded", d, "README.md")
            if os.path.exists(rp):
                taken.append("- " + open(rp).readline().lstrip("# ").strip()[:300])
    with open(wt + "/.mutout/PROPERTY.txt", "w") as f:
        f.write("PROPERTY %s\n\n%s\n\nIdeas already taken by earlier contributors (do something different):\n%s\n"
                % (p["id"], json.dumps(p, indent=1), "\n".join(taken)))
    print("prepared", wt, len(taken), "ideas taken")
