#!/usr/bin/env python3
"""Seeded-change bookkeeping (see DESIGN.md, "Seeded changes").

  seeded.py import <Cxx> <A|B>            copy /tmp/mut/<Cxx>/.mutout/<A|B> to seeded/<Cxx>-<A|B>/
  seeded.py confirm <name> [...]          in a scratch worktree: patch applies, builds, existing suite passes,
                                          demo fails with the patch and passes without it  -> meta.json["confirmed"]
  seeded.py eval <name> [...]             apply the patch to /repo, run the quick check(s) of its property, undo; -> meta.json["detected"]
  seeded.py table                         print the detection table

No seeded change is ever committed to /repo; `eval` always restores the working tree (git checkout -- .).
"""
import json
import os
import re
import shutil
import subprocess
import sys
import time

ROOT = os.path.dirname(os.path.dirname(os.path.abspath(__file__)))
SEEDED = os.path.join(ROOT, "seeded")
GOENV = dict(os.environ, GOFLAGS="-mod=mod", GOPROXY="off", GOSUMDB="off", GOTOOLCHAIN="local")


def sh(cmd, cwd=None, env=None, timeout=None):
    p = subprocess.run(cmd, cwd=cwd, env=env, timeout=timeout, stdout=subprocess.PIPE, stderr=subprocess.STDOUT, text=True,
                       shell=isinstance(cmd, str))
    return p.returncode, p.stdout


def meta_path(name):
    return os.path.join(SEEDED, name, "meta.json")


def load_meta(name):
    return json.load(open(meta_path(name)))


def save_meta(name, m):
    json.dump(m, open(meta_path(name), "w"), indent=1)


def demo_info(path):
    head = re.split(r"(?m)^package ", open(path).read())[0]
    m = re.search(r"(go test [^\n]*)", head)
    cmd = m.group(1).strip() if m else None
    pk = re.search(r"[Pp]lace (?:it )?in (?:the )?(repository root|[\w/\.-]+)", head)
    d = "." if (pk and pk.group(1) == "repository root") else (pk.group(1).rstrip("/") if pk else None)
    if d is None and cmd:
        m2 = re.search(r"\s(\./[\w/\.-]*|\.)\s*$", cmd)
        d = m2.group(1) if m2 else "."
    return d, cmd


def do_import(prop, which):
    src = "/tmp/mut/%s/.mutout/%s" % (prop, which)
    name = "%s-%s" % (prop, which)
    dst = os.path.join(SEEDED, name)
    os.makedirs(dst, exist_ok=True)
    for f in os.listdir(src):
        shutil.copy(os.path.join(src, f), os.path.join(dst, f))
    demo = [f for f in os.listdir(dst) if f.endswith(".go")]
    d, cmd = demo_info(os.path.join(dst, demo[0])) if demo else (None, None)
    readme = open(os.path.join(dst, "README.md")).read() if os.path.exists(os.path.join(dst, "README.md")) else ""
    m = dict(name=name, property=prop, origin="independent sub-agent given only the property text and a scratch worktree",
             demo_file=demo[0] if demo else None, demo_dir=d, demo_cmd=cmd,
             needs_to_manifest=readme[:1500], confirmed=None, detected=None)
    if os.path.exists(meta_path(name)):
        old = load_meta(name)
        m["confirmed"], m["detected"] = old.get("confirmed"), old.get("detected")
    save_meta(name, m)
    print("imported", name, d, cmd)


def confirm(name):
    m = load_meta(name)
    wt = "/tmp/conf/" + name
    sh(["git", "-C", "/repo", "worktree", "remove", "--force", wt])
    sh(["git", "-C", "/repo", "worktree", "prune"])
    sh(["rm", "-rf", wt])
    os.makedirs("/tmp/conf", exist_ok=True)
    rc, out = sh(["git", "-C", "/repo", "worktree", "add", "-q", "--detach", wt, "HEAD"])
    res = dict(at=time.strftime("%Y-%m-%d %H:%M"), repo_head=sh(["git", "-C", "/repo", "rev-parse", "--short", "HEAD"])[1].strip())
    try:
        patch = os.path.join(SEEDED, name, "patch.diff")
        rc, out = sh(["git", "apply", "--check", patch], cwd=wt)
        res["applies"] = rc == 0
        if rc != 0:
            res["detail"] = out[-500:]
            return res
        demo_dst = os.path.join(wt, m["demo_dir"], "zz_seeded_demo_test.go")
        shutil.copy(os.path.join(SEEDED, name, m["demo_file"]), demo_dst)
        tags = ["-tags", "verif"] if "-tags verif" in (m["demo_cmd"] or "") else []
        demo_cmd = m["demo_cmd"]
        # demo on the clean tree: must pass
        rc, out = sh(demo_cmd, cwd=wt, env=GOENV, timeout=900)
        res["demo_passes_without_patch"] = rc == 0
        if rc != 0:
            res["detail_clean"] = out[-800:]
        sh(["git", "apply", patch], cwd=wt)
        rc, out = sh(["go", "build"] + tags + ["./..."], cwd=wt, env=GOENV, timeout=900)
        res["builds"] = rc == 0
        rc, out = sh(demo_cmd, cwd=wt, env=GOENV, timeout=900)
        res["demo_fails_with_patch"] = rc != 0
        res["demo_output_tail"] = out[-600:]
        os.remove(demo_dst)
        import fcntl
        with open("/tmp/mut/suite.lock" if os.path.isdir("/tmp/mut") else "/tmp/conf/suite.lock", "a") as lk:  # the suite binds fixed ports: one run at a time
            fcntl.flock(lk, fcntl.LOCK_EX)
            rc, out = sh("go test -vet=off -count=1 -timeout 25m ./...", cwd=wt, env=GOENV, timeout=2400)
            if rc != 0 and "bind: address already in use" in out or "dial" in out and "metrics_server_test" in out:
                time.sleep(5)
                rc, out = sh("go test -vet=off -count=1 -timeout 25m ./...", cwd=wt, env=GOENV, timeout=2400)
        res["suite_passes_with_patch"] = rc == 0 and "FAIL" not in out
        if not res["suite_passes_with_patch"]:
            res["suite_tail"] = out[-1500:]
        res["ok"] = all(res.get(k) for k in ("applies", "builds", "demo_passes_without_patch", "demo_fails_with_patch",
                                             "suite_passes_with_patch"))
    finally:
        sh(["git", "-C", "/repo", "worktree", "remove", "--force", wt])
    return res


def evaluate(name, props=None):
    m = load_meta(name)
    props = props or [m["property"]]
    patch = os.path.join(SEEDED, name, "patch.diff")
    rc, out = sh(["git", "-C", "/repo", "status", "--porcelain"])
    if out.strip():
        print("refusing: /repo working tree is not clean:\n" + out)
        return None
    rc, out = sh(["git", "-C", "/repo", "apply", patch])
    if rc != 0:
        return dict(error="patch does not apply: " + out[-300:])
    res = {}
    saved = {}
    for pid in props:  # evidence files must only ever describe runs on the unchanged tree
        ep = os.path.join(ROOT, "evidence", pid + ".json")
        if os.path.exists(ep):
            saved[ep] = open(ep).read()
    try:
        for pid in props:
            t0 = time.time()
            rc, out = sh(["python3", "run/verif.py", "check", pid, "--tier", "quick"], cwd=ROOT, timeout=3000)
            vio = [l for l in out.split("\n") if l.startswith("VIOLATION")]
            clause = None
            if vio:
                mm = re.search(r"replay=(\S+)", vio[0])
                if mm and os.path.exists(mm.group(1)):
                    r = json.load(open(mm.group(1)))
                    clause = r.get("spec_clause") or r.get("kind")
            res[pid] = dict(exit=rc, violation=vio[0] if vio else None, clause=clause, wall_s=round(time.time() - t0, 1))
    finally:
        sh(["git", "-C", "/repo", "checkout", "--", "."])
        sh(["git", "-C", "/repo", "clean", "-fdq", "--", "."])
        for ep, data in saved.items():
            open(ep, "w").write(data)
        # leave Generated/*.lean in the state of the restored tree
        sh(["python3", "-c", "import sys; sys.path.insert(0, 'run'); import verif; verif.regenerate()"], cwd=ROOT)
    return res


def main():
    a = sys.argv[1:]
    if not a:
        print(__doc__)
        return 2
    if a[0] == "import":
        do_import(a[1], a[2])
    elif a[0] == "confirm":
        for name in a[1:]:
            r = confirm(name)
            m = load_meta(name)
            m["confirmed"] = r
            save_meta(name, m)
            print(name, "confirmed" if r.get("ok") else "NOT CONFIRMED", {k: v for k, v in r.items() if k not in ("demo_output_tail",)})
    elif a[0] == "eval":
        names = [x for x in a[1:] if not x.startswith("--")]
        props = None
        for x in a[1:]:
            if x.startswith("--props="):
                props = x.split("=")[1].split(",")
        for name in names:
            r = evaluate(name, props)
            m = load_meta(name)
            m["detected"] = dict(m.get("detected") or {}, **(r or {}))
            save_meta(name, m)
            print(name, json.dumps(r))
    elif a[0] == "table":
        for name in sorted(os.listdir(SEEDED)):
            if not os.path.exists(meta_path(name)):
                continue
            m = load_meta(name)
            c = (m.get("confirmed") or {}).get("ok")
            d = m.get("detected") or {}
            print("%-8s confirmed=%-5s %s" % (name, c, " ".join("%s:%s(%s)" % (p, "CAUGHT" if v.get("violation") else "missed", v.get("clause")) for p, v in d.items() if isinstance(v, dict))))
    return 0


if __name__ == "__main__":
    sys.exit(main())
