#!/usr/bin/env python3
"""Regenerates /verif/MANIFEST.json from run/props.py + run/manifest_meta.py (kept in one place so it is always valid)."""
import json, os, subprocess, sys
ROOT = os.path.dirname(os.path.dirname(os.path.abspath(__file__)))
sys.path.insert(0, os.path.join(ROOT, "run"))
from props import PROPS
from manifest_meta import META, NOT_APPLICABLE

ids = [json.loads(l)["id"] for l in open(os.path.join(ROOT, "properties.jsonl"))]
hooks = subprocess.run(["git", "-C", "/repo", "log", "--format=%H %s"], capture_output=True, text=True).stdout.split("\n")
hook_commits = [l.split(" ")[0] for l in hooks if " verif hooks" in l]
baseline = json.load(open("/root/.vp/BASELINE.json"))["cmd"]
checks = []
TRANSLATED = " Parts of the Go source are additionally TRANSLATED on every run (extractor/translate.go -> MiniGo terms in Generated/Trans.lean) and the translated_* theorems of the property file prove, for every environment, that the translated code does what the model functions say (DESIGN.md section 4f)."
for pid in ids:
    if pid not in PROPS or pid not in META:
        continue
    m = dict(META[pid])
    pf = os.path.join(ROOT, "lean", "Firebolt", "Properties", pid + ".lean")
    if os.path.exists(pf) and "theorem translated_" in open(pf).read():
        m["text"] = m["text"].rstrip() + TRANSLATED
        m["technique"] = m.get("technique", "Lean 4 theorems about a hand-written model; model tied to /repo by a differential correspondence check and by kernel-checked equalities between the regenerated and the reviewed form of the functions it was transcribed from") + "; plus Lean 4 theorems about MiniGo terms translated from the Go source on every run"
    checks.append(dict(
        property_id=pid,
        quick_cmd="python3 run/verif.py check %s --tier quick" % pid,
        thorough_cmd="python3 run/verif.py check %s --tier thorough" % pid,
        evidence_file="/verif/evidence/%s.json" % pid,
        replay_cmd_template="python3 run/verif.py replay {path}",
        engine="lean4-proof+correspondence",
        level_claimed=dict(category="proof", text=m["text"], design_ref=m.get("design_ref", "DESIGN.md section 8")),
        level_note=m["note"],
        technique=m.get("technique", "Lean 4 theorems about a hand-written model; model tied to /repo by a differential correspondence check and by kernel-checked equalities between the regenerated and the reviewed form of the functions it was transcribed from"),
    ))
na = [dict(property_id=p, reason=NOT_APPLICABLE.get(p, "check not built yet in this round; see DESIGN.md")) for p in ids if p not in [c["property_id"] for c in checks]]
man = dict(
    version=1,
    setup_cmd="python3 run/verif.py setup",
    hooks=dict(guard="verif", enable="go build -tags verif (harness module with replace github.com/digitalocean/firebolt => /repo)",
               baseline_off_cmd=baseline, source_commits=hook_commits, add_only=True),
    engines=[dict(name="lean4-proof+correspondence", path="/verif/lean, /verif/harness, /verif/run/verif.py",
                  serves_properties=[c["property_id"] for c in checks],
                  kind_free_text="Lean 4 models + Spec predicates + theorems (lake build, #print axioms audit); Go harness drives the real code, "
                                 "compiled Lean driver runs model and Spec on the same cases; Python orchestrator decides")],
    checks=checks,
    notes="See DESIGN.md. known_findings.json lists genuine defects recorded rather than repaired.",
    not_applicable=na,
)
json.dump(man, open(os.path.join(ROOT, "MANIFEST.json"), "w"), indent=1)
print("checks:", [c["property_id"] for c in checks], "unclaimed:", [x["property_id"] for x in na])
